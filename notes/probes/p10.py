import torch, logging, copy, json
logging.disable(logging.ERROR)
from distributed_shampoo import *
def mk(ps): return DistributedShampoo(ps, lr=0.01, betas=(0.9,0.99), epsilon=1e-8, precondition_frequency=1, start_preconditioning_step=1, max_preconditioner_dim=4, momentum=0.5, grafting_config=AdamGraftingConfig(beta2=0.9, epsilon=1e-3))
g0=torch.Generator().manual_seed(0)
ps=[torch.nn.Parameter(torch.randn(5,3,generator=g0))]
opt=mk(ps)
for s in range(2):
    for p in ps: p.grad=torch.randn(p.shape,generator=g0)
    opt.step()
sd=opt.distributed_state_dict(key_to_param=iter([("p0",ps[0])]))
keys=list(sd["state"]["p0"].keys())
for k in keys:
    sd2=copy.deepcopy(sd); del sd2["state"]["p0"][k]
    ps2=[torch.nn.Parameter(ps[0].detach().clone())]; o2=mk(ps2)
    try:
        o2.load_distributed_state_dict(sd2, key_to_param=iter([("p0",ps2[0])])); print("NO RAISE for missing", k)
    except Exception as e: print("raise", type(e).__name__, "for", k)
# delete a whole sub-dict inside module
sd2=copy.deepcopy(sd)
for k in keys:
    if json.loads(k)[:3]==["block_0","shampoo","factor_matrices"]: del sd2["state"]["p0"][k]
ps2=[torch.nn.Parameter(ps[0].detach().clone())]; o2=mk(ps2)
try:
    o2.load_distributed_state_dict(sd2, key_to_param=iter([("p0",ps2[0])])); print("NO RAISE for missing whole factor_matrices of block_0")
except Exception as e: print("raise", type(e).__name__)
