# prototype: step-locked float64 reference for one Shampoo step (single block, order-2), to calibrate tolerances
import torch, logging, copy
logging.disable(logging.ERROR)
torch.set_num_threads(1)
from distributed_shampoo import *
def run(dtype, eps):
    g0=torch.Generator().manual_seed(0)
    p=torch.nn.Parameter(torch.randn(6,5,generator=g0).to(dtype))
    lr,b1,b2,b3,mom,damp,wd,gb2,geps=0.013,0.9,0.95,0.8,0.6,0.2,0.03,0.97,1e-3
    opt=DistributedShampoo([p], lr=lr, betas=(b1,b2), beta3=b3, epsilon=eps, momentum=mom, dampening=damp, weight_decay=wd, use_nesterov=True, max_preconditioner_dim=8, precondition_frequency=3, start_preconditioning_step=3, use_decoupled_weight_decay=True, grafting_config=AdamGraftingConfig(beta2=gb2,epsilon=geps), use_merge_dims=False, preconditioner_dtype=torch.float32 if dtype!=torch.float64 else torch.float64)
    worst=0
    D=torch.float64
    for t in range(1,13):
        g=torch.randn(6,5,generator=g0).to(dtype); p.grad=g.clone()
        st=opt.state[p]["block_0"]; sh=st["shampoo"]
        pre=dict(L=sh.factor_matrices[0].clone().to(D), R=sh.factor_matrices[1].clone().to(D), m=st["filtered_grad"].clone().to(D), M=st["momentum"].clone().to(D), v=st["adagrad"].clone().to(D), W=p.detach().clone().to(D))
        opt.step()
        G=g.to(D)
        L=b2*pre["L"]+(1-b2)*G@G.T; R=b2*pre["R"]+(1-b2)*G.T@G
        m=b1*pre["m"]+(1-b1)*G
        gbar=(b3*pre["m"]+(1-b3)*G)/(1-b3*b1**(t-1))
        v=gb2*pre["v"]+(1-gb2)*G*G
        graft=gbar/((v/(1-gb2**t)).sqrt()+geps)
        if t<3: P=graft
        else:
            Li=sh.inv_factor_matrices[0].to(D); Ri=sh.inv_factor_matrices[1].to(D)
            S=Li@gbar@Ri   # symmetric inv roots
            P=S*(graft.norm()/(S.norm()+1e-16))
        P=P+wd*pre["W"]
        M=mom*pre["M"]+(1-damp)*P
        P=(1-damp)*P+mom*M
        Wn=pre["W"]-lr*P
        def rel(a,b): return ((a.to(D)-b).norm()/(b.norm()+1e-300)).item()
        errs=dict(L=rel(sh.factor_matrices[0],L), m=rel(st["filtered_grad"],m), v=rel(st["adagrad"],v), M=rel(st["momentum"],M), dW=rel(p.detach().to(D)-pre["W"], Wn-pre["W"]))
        if t>=3 and t%3==0:
            bc=1-b2**t
            ev,Q=torch.linalg.eigh(L/bc); X=Q@torch.diag((ev+eps)**(-1/4))@Q.T
            errs["inv"]=rel(sh.inv_factor_matrices[0],X); errs["cond"]=((ev.max()+eps)/(ev.min().clamp(min=0)+eps)).item()
        worst=max(worst, max(v for k,v in errs.items() if k!="cond"))
        if t in (1,3,6,12): print(dtype, eps, t, {k: f"{v:.1e}" for k,v in errs.items()})
    print("worst", worst)
run(torch.float32,1e-6); run(torch.float64,1e-6); run(torch.bfloat16,1e-6)
