import time, torch, threading, traceback, sys
import torch.distributed as dist
from torch.testing._internal.distributed.multi_threaded_pg import _install_threaded_pg, ProcessLocalGroup
from distributed_shampoo import *
import distributed_shampoo.utils.shampoo_dist_utils as du, distributed_shampoo.utils.shampoo_ddp_distributor as m1
import logging
logging.disable(logging.ERROR)
torch.set_num_threads(1)
_tl=threading.local(); raw=du.get_device_mesh.__wrapped__
def gdm(device_type, mesh, mesh_dim_names=None):
    c=_tl.__dict__.setdefault("c",{}); k=(device_type,mesh,mesh_dim_names)
    if k not in c: c[k]=raw(device_type,mesh,mesh_dim_names)
    return c[k]
du.get_device_mesh=gdm; m1.get_device_mesh=gdm
W=int(sys.argv[1]); G=int(sys.argv[2]); comm=sys.argv[3]; cp=sys.argv[4]=="1"; starve=sys.argv[5]=="1"; dt=torch.float64 if sys.argv[6]=="64" else torch.float32
shapes=[(6,5),(7,),(3,3),(4,4)]
kw=dict(lr=0.01, betas=(0.9,0.99), epsilon=1e-6, momentum=0.5, weight_decay=0.0, max_preconditioner_dim=4, precondition_frequency=2, start_preconditioning_step=2, grafting_config=AdamGraftingConfig(beta2=0.99,epsilon=1e-8), preconditioner_dtype=dt)
def train(dc, log):
    g0=torch.Generator().manual_seed(0)
    ps=[torch.nn.Parameter(torch.randn(s,generator=g0,dtype=dt)) for s in shapes]
    opt=DistributedShampoo(ps, distributed_config=dc, **kw)
    g=torch.Generator().manual_seed(1); out=[]
    for s in range(6):
        for i,p in enumerate(ps):
            p.grad=torch.randn(p.shape, generator=g,dtype=dt)
            if starve and s==3 and i in (0,): p.grad=None   # drop grads for param 0 at step 3
        opt.step(); out.append([p.detach().clone() for p in ps])
    return out
serial=train(None,None)
torch._C._distributed_c10d._set_thread_isolation_mode(True); _install_threaded_pg(); store=dist.HashStore()
results={}; errors={}
def run_rank(rank):
    try:
        dist.init_process_group(backend="threaded", rank=rank, world_size=W, store=store)
        results[rank]=train(DDPShampooConfig(communication_dtype=getattr(CommunicationDType,comm), num_trainers_per_group=G, communicate_params=cp),None)
    except BaseException as e:
        errors[rank]=traceback.format_exc() if not isinstance(e, SystemExit) else "sysexit"; ProcessLocalGroup.exception_handle(e)
    finally:
        try: dist.destroy_process_group()
        except Exception: pass
ths=[threading.Thread(target=run_rank,args=(r,),daemon=True) for r in range(W)]
[t.start() for t in ths]; [t.join(20) for t in ths]
print(sys.argv[1:], "alive", [t.is_alive() for t in ths], {r:(e if e=="sysexit" else e[-200:]) for r,e in errors.items()})
if len(results)==W:
    print(" replicas bitwise:", all(torch.equal(a,b) for r in range(1,W) for sa,sb in zip(results[0],results[r]) for a,b in zip(sa,sb)),
          " vs serial bitwise:", all(torch.equal(a,b) for sa,sb in zip(results[0],serial) for a,b in zip(sa,sb)),
          " maxdiff vs serial:", max((a-b).abs().max().item() for sa,sb in zip(results[0],serial) for a,b in zip(sa,sb)))
