# starvation on threaded PG with a minimal ledger: which iteration does each all_gather instance pair?
import time, torch, threading, traceback, sys, collections
import torch.distributed as dist
from torch.testing._internal.distributed.multi_threaded_pg import _install_threaded_pg, ProcessLocalGroup
from distributed_shampoo import *
import distributed_shampoo.utils.shampoo_dist_utils as du, distributed_shampoo.utils.shampoo_ddp_distributor as m1
import logging
logging.disable(logging.ERROR); torch.set_num_threads(1)
_tl=threading.local(); raw=du.get_device_mesh.__wrapped__
def gdm(device_type, mesh, mesh_dim_names=None):
    c=_tl.__dict__.setdefault("c",{}); k=(device_type,mesh,mesh_dim_names)
    if k not in c: c[k]=raw(device_type,mesh,mesh_dim_names)
    return c[k]
du.get_device_mesh=gdm; m1.get_device_mesh=gdm
W=2
ledger=collections.defaultdict(list); lock=threading.Lock(); cur_iter={}
orig_ag=dist.all_gather_into_tensor
def ag(out, inp, group=None, async_op=False):
    r=dist.get_rank()
    with lock: ledger[r].append(("all_gather", cur_iter[r]))
    return orig_ag(out, inp, group=group, async_op=async_op)
dist.all_gather_into_tensor=ag
orig_ng=dist.distributed_c10d.new_group
import torch.distributed.device_mesh as dm
def ng(ranks=None, *a, **k):
    r=dist.get_rank()
    with lock: ledger[r].append(("new_group", tuple(ranks) if ranks is not None else None))
    return orig_ng(ranks, *a, **k)
dm.new_group=ng; dist.new_group=ng; dist.distributed_c10d.new_group=ng
shapes=[(8,8),(3,)]   # rank0 owns big block, rank1 owns small one
torch._C._distributed_c10d._set_thread_isolation_mode(True); _install_threaded_pg(); store=dist.HashStore()
results={}; errors={}
def run_rank(rank):
    try:
        dist.init_process_group(backend="threaded", rank=rank, world_size=W, store=store)
        g0=torch.Generator().manual_seed(0)
        ps=[torch.nn.Parameter(torch.randn(s,generator=g0)) for s in shapes]
        opt=DistributedShampoo(ps, lr=0.01, betas=(0.0,1.0), epsilon=1e-6, max_preconditioner_dim=8, precondition_frequency=1, start_preconditioning_step=1, distributed_config=DDPShampooConfig(num_trainers_per_group=2))
        own=[bi.composable_block_ids for bi in opt._per_group_state_lists[0]["distributor"].local_block_info_list]
        g=torch.Generator().manual_seed(1); out=[]
        for s in range(5):
            cur_iter[rank]=s
            for i,p in enumerate(ps):
                p.grad=torch.randn(p.shape, generator=g)
                if s==2 and i==1: p.grad=None      # starve the rank owning param 1 at iteration 2
            opt.step(); out.append([p.detach().clone() for p in ps])
        results[rank]=(own,out)
    except BaseException as e:
        errors[rank]=traceback.format_exc() if not isinstance(e, SystemExit) else "sysexit"; ProcessLocalGroup.exception_handle(e)
    finally:
        try: dist.destroy_process_group()
        except Exception: pass
ths=[threading.Thread(target=run_rank,args=(r,),daemon=True) for r in range(W)]
[t.start() for t in ths]; [t.join(15) for t in ths]
print("alive", [t.is_alive() for t in ths], {r:(e if e=="sysexit" else e[-300:]) for r,e in errors.items()})
for r in range(W): print("rank",r,"ledger",ledger[r], "owns", results.get(r,(None,))[0])
if len(results)==W:
    for s in range(5): print("iter",s,"replicas equal", all(torch.equal(a,b) for a,b in zip(results[0][1][s],results[1][1][s])))
