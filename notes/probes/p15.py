import os, sys, time, torch, logging
import torch.distributed as dist
logging.disable(logging.WARNING)
from distributed_shampoo import DistributedShampoo, AdamGraftingConfig, DDPShampooConfig, CommunicationDType
from distributed_shampoo.utils.shampoo_dist_utils import get_device_mesh
from datetime import timedelta
rank=int(os.environ["RANK"]); W=int(os.environ["WORLD_SIZE"]); G=int(sys.argv[1]); fix=sys.argv[2]=="1"
dist.init_process_group("gloo", init_method=f"file://{sys.argv[3]}", rank=rank, world_size=W, timeout=timedelta(seconds=20))
g0=torch.Generator().manual_seed(0)
ps=[torch.nn.Parameter(torch.randn(6,5,generator=g0)), torch.nn.Parameter(torch.randn(7,generator=g0)), torch.nn.Parameter(torch.randn(3,3,generator=g0))]
if fix:
    # emulate the candidate repair: every rank creates every owner mesh, in the same order.
    # NOTE: new_subgroups happens inside the ctor before; order relative to it only needs to be equal on all ranks.
    for r in range(G): get_device_mesh(device_type="cpu", mesh=tuple(range(r, W, G)))
opt=DistributedShampoo(ps, lr=0.01, betas=(0.9,0.99), epsilon=1e-8, momentum=0.5, weight_decay=0.01, max_preconditioner_dim=4, precondition_frequency=2, start_preconditioning_step=2, grafting_config=AdamGraftingConfig(beta2=0.99,epsilon=1e-8), distributed_config=DDPShampooConfig(communication_dtype=CommunicationDType.FP32, num_trainers_per_group=G, communicate_params=False))
g=torch.Generator().manual_seed(1)
for s in range(6):
    for p in ps: p.grad=torch.randn(p.shape, generator=g)
    opt.step()
print("rank",rank,"done", float(sum(p.sum() for p in ps)), flush=True)
dist.destroy_process_group()
