import torch, math, logging, itertools, warnings
logging.disable(logging.ERROR); torch.set_num_threads(1)
from fractions import Fraction
from matrix_functions import matrix_inverse_root
from matrix_functions_types import EigenConfig, CoupledNewtonConfig, CoupledHigherOrderConfig
g=torch.Generator().manual_seed(0)
def haar(n):
    Q,R=torch.linalg.qr(torch.randn(n,n,generator=g,dtype=torch.float64)); return Q*torch.sign(torch.diagonal(R))
res={}
for cfgname,cfg in [("eig",EigenConfig()),("eig_stab",EigenConfig(enhance_stability=True)),("newton",CoupledNewtonConfig()),("ho",CoupledHigherOrderConfig())]:
  for dt,u in [(torch.float32,2**-24),(torch.float64,2**-53)]:
    worst={}
    for n in (2,8,32,64):
      for logk in (0,1,2,3,4,5,6):
        for r in (2,4,3,Fraction(400,182)):
          for trial in range(3):
            k=10.0**logk
            lam=torch.logspace(0,-logk,n,dtype=torch.float64) if n>1 else torch.ones(1,dtype=torch.float64)
            eps=0.0
            Q=haar(n); A64=(Q*lam)@Q.T; A64=(A64+A64.T)/2
            epsv=lam.min().item()*1e-3
            Xs=(Q*((lam+epsv)**(-1.0/float(r))))@Q.T
            try:
                X=matrix_inverse_root(A64.to(dt), Fraction(r), root_inv_config=cfg, epsilon=epsv).double()
                err=((X-Xs).norm()/Xs.norm()).item()
            except Exception as e:
                err=float('nan')
            ueff=u; import numpy as np; de=abs(float(np.float32(-1.0/r))+1.0/r)
            bound=n*ueff*(k+1)/float(r) + max(abs(math.log(lam.min().item()+epsv)),abs(math.log(lam.max().item()+epsv)))*de + (1e-6 if cfgname=="newton" else 0)+(1e-8 if cfgname=="ho" else 0)
            key=(logk,)
            worst[key]=max(worst.get(key,0), (err/bound) if err==err else float('inf'))
    print(cfgname, dt, {k[0]: (f"{v:.2g}") for k,v in sorted(worst.items())})
