import time, torch, threading, traceback, sys, copy, io
import torch.distributed as dist
from torch.testing._internal.distributed.multi_threaded_pg import _install_threaded_pg, ProcessLocalGroup
from distributed_shampoo import *
import distributed_shampoo.utils.shampoo_dist_utils as du, distributed_shampoo.utils.shampoo_ddp_distributor as m1
import logging
logging.disable(logging.ERROR); torch.set_num_threads(1)
_tl=threading.local(); raw=du.get_device_mesh.__wrapped__
def gdm(device_type, mesh, mesh_dim_names=None):
    c=_tl.__dict__.setdefault("c",{}); k=(device_type,mesh,mesh_dim_names)
    if k not in c: c[k]=raw(device_type,mesh,mesh_dim_names)
    return c[k]
du.get_device_mesh=gdm; m1.get_device_mesh=gdm
W=2; mode=sys.argv[1]
shapes=[(6,5),(7,),(3,3)]
kw=dict(lr=0.01, betas=(0.9,0.99), epsilon=1e-6, momentum=0.5, weight_decay=0.01, max_preconditioner_dim=4, precondition_frequency=2, start_preconditioning_step=2, grafting_config=AdamGraftingConfig(beta2=0.99,epsilon=1e-8))
torch._C._distributed_c10d._set_thread_isolation_mode(True); _install_threaded_pg(); store=dist.HashStore()
results={}; errors={}
def run_rank(rank):
    try:
        dist.init_process_group(backend="threaded", rank=rank, world_size=W, store=store)
        dc=DDPShampooConfig(num_trainers_per_group=2)
        g0=torch.Generator().manual_seed(0)
        ps=[torch.nn.Parameter(torch.randn(s,generator=g0)) for s in shapes]
        opt=DistributedShampoo(ps, distributed_config=dc, **kw)
        gs=[[torch.randn(s,generator=g0) for s in shapes] for _ in range(8)]
        traj=[]; saved=None
        for s in range(8):
            for p,g in zip(ps,gs[s]): p.grad=g.clone()
            opt.step(); traj.append([p.detach().clone() for p in ps])
            if s==3:
                sd=opt.distributed_state_dict(key_to_param=iter([(f"p{i}",p) for i,p in enumerate(ps)]))
                if mode=="deepcopy": saved=copy.deepcopy(sd)
                else:
                    b=io.BytesIO(); torch.save(sd,b); b.seek(0); saved=torch.load(b, weights_only=False)
                psnap=[p.detach().clone() for p in ps]
        ps2=[torch.nn.Parameter(x.clone()) for x in psnap]
        opt2=DistributedShampoo(ps2, distributed_config=dc, **kw)
        opt2.load_distributed_state_dict(saved, key_to_param=iter([(f"p{i}",p) for i,p in enumerate(ps2)]))
        ok=True
        for s in range(4,8):
            for p,g in zip(ps2,gs[s]): p.grad=g.clone()
            opt2.step(); ok &= all(torch.equal(a,b.detach()) for a,b in zip(traj[s],ps2))
        results[rank]=ok
    except BaseException as e:
        errors[rank]=traceback.format_exc() if not isinstance(e, SystemExit) else "sysexit"; ProcessLocalGroup.exception_handle(e)
    finally:
        try: dist.destroy_process_group()
        except Exception: pass
ths=[threading.Thread(target=run_rank,args=(r,),daemon=True) for r in range(W)]
[t.start() for t in ths]; [t.join(30) for t in ths]
print(mode, "alive", [t.is_alive() for t in ths], "resume bitwise per rank:", results, {r:(e if e=="sysexit" else e[-600:]) for r,e in errors.items()})
