import sys, time, torch, logging
logging.disable(logging.ERROR); torch.set_num_threads(1)
mon=sys.monitoring; TID=mon.COVERAGE_ID
hits=set()
def on_line(code, line):
    f=code.co_filename
    if f.startswith("/repo/"): hits.add((f,line))
    return mon.DISABLE
mon.use_tool_id(TID,"verif-reach"); mon.register_callback(TID, mon.events.LINE, on_line); mon.set_events(TID, mon.events.LINE)
from distributed_shampoo import *
g0=torch.Generator().manual_seed(0)
ps=[torch.nn.Parameter(torch.randn(s,generator=g0)) for s in [(6,5),(7,)]]
opt=DistributedShampoo(ps, lr=0.01, betas=(0.9,0.99), epsilon=1e-6, momentum=0.5, max_preconditioner_dim=4, precondition_frequency=2, start_preconditioning_step=2, grafting_config=AdamGraftingConfig(beta2=0.99,epsilon=1e-8))
t=time.time()
for s in range(100):
    for p in ps: p.grad=torch.randn(p.shape,generator=g0)
    if s==5: ps[1].grad=None
    opt.step()
print("100 steps with reach monitor", round(time.time()-t,2),"s; lines hit", len(hits))
import collections
c=collections.Counter(f for f,_ in hits); print(dict(c))
import inspect, distributed_shampoo.utils.shampoo_preconditioner_list as pl
src,start=inspect.getsourcelines(pl.ShampooPreconditionerList._amortized_computation)
print("amortized lines hit", sum(1 for i in range(start,start+len(src)) if (pl.__file__,i) in hits), "of", len(src))
