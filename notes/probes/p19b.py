import torch, logging
logging.disable(logging.ERROR); torch.set_num_threads(1)
from matrix_functions import _compute_orthogonal_iterations
g=torch.Generator().manual_seed(0)
def haar(n):
    Q,R=torch.linalg.qr(torch.randn(n,n,generator=g,dtype=torch.float64)); return Q*torch.sign(torch.diagonal(R))
def ref_iter(A,Q0,k):
    Q=Q0
    for _ in range(k): Q=torch.linalg.qr(A@Q).Q
    ev=torch.einsum("ij,ik,kj->j",Q,A,Q); o=ev.argsort(); return Q[:,o], ev[o]
def cluster_cmp(out,Qr,ev,u,n,normA,C=256):
    # split reference columns into clusters separated by gaps > delta; compare projectors; return (ok, nonvacuous)
    delta=max(1e3*n*u,1e-9)*normA
    cuts=[0]+[i+1 for i in range(n-1) if (ev[i+1]-ev[i])>delta]+[n]
    ok=True; nonvac=0
    for a,b in zip(cuts[:-1],cuts[1:]):
        gap=min([ (ev[a]-ev[a-1]).item() if a>0 else float('inf'), (ev[b]-ev[b-1]).item() if b<n else float('inf')])
        tol=C*n*u*normA/gap if gap<float('inf') else C*n*u
        tol=max(tol, C*n*u)
        if tol>0.1: continue
        nonvac+=1
        Pa=out[:,a:b]@out[:,a:b].T; Pb=Qr[:,a:b]@Qr[:,a:b].T
        if (Pa-Pb).norm().item()>tol: ok=False
    return ok,nonvac
stats=dict(cases=0,matched=0,nonvac_clusters=0,vacuous_cases=0,fail=0)
for trial in range(1200):
    n=int(torch.randint(2,17,(1,),generator=g)); dt=[torch.float32,torch.float64][trial%2]; u=2**-24 if dt==torch.float32 else 2**-53
    kind=trial%4
    lam=torch.rand(n,generator=g,dtype=torch.float64)+0.05
    if kind==1: lam[: n//2]=0.0
    if kind==2: lam[1]=lam[0]
    Q=haar(n); A=(Q*lam)@Q.T; A=(A+A.T)/2; normA=lam.max().item()
    Q0=haar(n) if kind!=3 else (Q[:,lam.argsort()])
    K=int(torch.randint(1,6,(1,),generator=g)); tol=[0.0,1e-5,1e-2][trial%3]
    out=_compute_orthogonal_iterations(A.to(dt),Q0.to(dt),max_iterations=K,tolerance=tol).double()
    stats["cases"]+=1
    best=None
    for k in range(1,K+1):
        Qr,ev=ref_iter(A,Q0,k); ok,nv=cluster_cmp(out,Qr,ev,u,n,normA)
        if ok and (best is None or nv>best[1]): best=(k,nv)
    if best is None: stats["fail"]+=1; print("FAIL",trial,n,dt,kind,K,tol)
    else:
        stats["matched"]+=1; stats["nonvac_clusters"]+=best[1]; stats["vacuous_cases"]+= (best[1]==0)
print(stats)
# sensitivity: a broken variant (no Rayleigh sort) must not match
bad=0; tot=0
for trial in range(200):
    n=int(torch.randint(3,12,(1,),generator=g)); lam=torch.rand(n,generator=g,dtype=torch.float64)+0.05
    Q=haar(n); A=(Q*lam)@Q.T; A=(A+A.T)/2; Q0=haar(n)
    Qb=torch.linalg.qr(A@Q0).Q   # mutant: unsorted
    ok_any=False
    for k in (1,):
        Qr,ev=ref_iter(A,Q0,k); ok,nv=cluster_cmp(Qb,Qr,ev,2**-24,n,lam.max().item()); ok_any|= (ok and nv>0)
    tot+=1; bad+= (not ok_any)
print("mutant (missing sort) detected in",bad,"of",tot)
