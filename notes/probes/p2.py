import time, torch, threading, traceback, sys
import torch.distributed as dist
from torch.testing._internal.distributed.multi_threaded_pg import _install_threaded_pg, _uninstall_threaded_pg, ProcessLocalGroup
from torch.testing._internal.distributed import multi_threaded_pg
from distributed_shampoo import DistributedShampoo, AdamGraftingConfig, DDPShampooConfig, CommunicationDType
import distributed_shampoo.utils.shampoo_dist_utils as du
import logging
logging.disable(logging.WARNING)

W=int(sys.argv[1]); G=int(sys.argv[2])
torch._C._distributed_c10d._set_thread_isolation_mode(True)
_install_threaded_pg()
store = dist.HashStore()
results={}
errors={}
log=[]
loglock=threading.Lock()
orig_new_group=dist.new_group
def run_rank(rank):
    try:
        dist.init_process_group(backend="threaded", rank=rank, world_size=W, store=store)
        g0=torch.Generator().manual_seed(0)
        ps=[torch.nn.Parameter(torch.randn(6,5,generator=g0)), torch.nn.Parameter(torch.randn(7,generator=g0)), torch.nn.Parameter(torch.randn(3,3,generator=g0))]
        opt=DistributedShampoo(ps, lr=0.01, betas=(0.9,0.99), epsilon=1e-8, momentum=0.5, weight_decay=0.01, max_preconditioner_dim=4, precondition_frequency=2, start_preconditioning_step=2, grafting_config=AdamGraftingConfig(beta2=0.99,epsilon=1e-8), distributed_config=DDPShampooConfig(communication_dtype=CommunicationDType.FP32, num_trainers_per_group=G, communicate_params=False))
        g=torch.Generator().manual_seed(1)
        for s in range(6):
            for p in ps: p.grad=torch.randn(p.shape, generator=g)
            opt.step()
        results[rank]=[p.detach().clone() for p in ps]
    except BaseException as e:
        errors[rank]=traceback.format_exc() if not isinstance(e, SystemExit) else "sysexit"
        ProcessLocalGroup.exception_handle(e)
    finally:
        try: dist.destroy_process_group()
        except Exception as e: pass
ths=[threading.Thread(target=run_rank,args=(r,)) for r in range(W)]
t=time.time()
[t_.start() for t_ in ths]; [t_.join(60) for t_ in ths]
print("alive", [t_.is_alive() for t_ in ths], "time", time.time()-t)
for r,e in errors.items(): print("ERR", r, e[-1500:])
if len(results)==W:
    print("replicas equal", all(all(torch.equal(a,b) for a,b in zip(results[0],results[r])) for r in range(W)))
