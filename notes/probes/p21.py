import torch, logging
logging.disable(logging.ERROR); torch.set_num_threads(1)
from distributed_shampoo import *
INF=10**9
def run(target, dt, b, shapes, steps=30, wd=0.03, seed=0):
    g0=torch.Generator().manual_seed(seed)
    init=[torch.randn(s,generator=g0,dtype=dt) for s in shapes]
    gs=[[torch.randn(s,generator=g0,dtype=dt)*(10.0**((i%3)-1)) for i,s in enumerate(shapes)] for _ in range(steps)]
    lr=0.02; b1,b2,eps=0.87,0.93,1e-6; mom=0.7
    A=[torch.nn.Parameter(x.clone()) for x in init]; B=[torch.nn.Parameter(x.clone()) for x in init]
    common=dict(lr=lr, epsilon=1e-12, max_preconditioner_dim=b, precondition_frequency=1, start_preconditioning_step=INF, weight_decay=wd, preconditioner_dtype=torch.float64 if dt==torch.float64 else torch.float32)
    if target=="sgd":
        o=DistributedShampoo(A, betas=(0.0,1.0), momentum=mom, use_nesterov=True, use_decoupled_weight_decay=False, grafting_config=SGDGraftingConfig(), **common); t=torch.optim.SGD(B, lr=lr, momentum=mom, nesterov=True, weight_decay=wd)
    elif target=="adagrad":
        o=DistributedShampoo(A, betas=(0.0,1.0), use_decoupled_weight_decay=False, grafting_config=AdaGradGraftingConfig(epsilon=eps), **common); t=torch.optim.Adagrad(B, lr=lr, eps=eps, weight_decay=wd)
    elif target=="rmsprop":
        o=DistributedShampoo(A, betas=(0.0,1.0), momentum=mom, use_decoupled_weight_decay=False, use_bias_correction=False, grafting_config=RMSpropGraftingConfig(beta2=b2,epsilon=eps), **common); t=torch.optim.RMSprop(B, lr=lr, alpha=b2, eps=eps, momentum=mom, weight_decay=wd)
    elif target=="adam":
        o=DistributedShampoo(A, betas=(b1,0.999), use_decoupled_weight_decay=False, grafting_config=AdamGraftingConfig(beta2=b2,epsilon=eps), **common); t=torch.optim.Adam(B, lr=lr, betas=(b1,b2), eps=eps, weight_decay=wd)
    elif target=="adamw":
        o=DistributedShampoo(A, betas=(b1,0.999), use_decoupled_weight_decay=True, grafting_config=AdamGraftingConfig(beta2=b2,epsilon=eps), **common); t=torch.optim.AdamW(B, lr=lr, betas=(b1,b2), eps=eps, weight_decay=wd)
    worst=0
    for s in range(steps):
        for p,q,g in zip(A,B,gs[s]):
            absent = (target in("sgd","adagrad","rmsprop")) and ((s+hash(p.shape))%4==0)
            p.grad=None if absent else g.clone(); q.grad=None if absent else g.clone()
        o.step(); t.step()
        worst=max(worst, max(((p-q).abs()/(q.abs()+1e-3)).max().item() for p,q in zip(A,B)))
    return worst
shapes=[(7,5),(9,),(2,3,4),(),(3,1,4,2)]
for target in ["sgd","adagrad","rmsprop","adam","adamw"]:
    print(target, {str(dt)[6:]+f"/b{b}": f"{run(target,dt,b,shapes):.1e}" for dt in (torch.float32,torch.float64) for b in (1,3,100)})
