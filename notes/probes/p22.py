import torch, threading, traceback, sys, math, logging
import torch.distributed as dist
from torch.testing._internal.distributed.multi_threaded_pg import _install_threaded_pg, ProcessLocalGroup
from distributed_shampoo import *
from distributed_shampoo.shampoo_types import FSDPParameterMetadata
from torch.distributed.fsdp import ShardingStrategy
logging.disable(logging.ERROR); torch.set_num_threads(1)
# independent slab decomposition (reference): greedy maximal slabs via DP-free recursive spec -> here brute-force DP for min pieces
def ref_slabs(shape,a,b):
    n=len(shape); strides=[math.prod(shape[d+1:]) for d in range(n)] if n else []
    def valid(x,y):   # [x,y) is a slab k x shape[d+1:] inside a single index of leading dims
        if n==0: return (x,y)==(0,1), ()
        for d in range(n):
            s=strides[d]; blk=s*shape[d]
            if x%s==0 and y%s==0 and x//blk==(y-1)//blk: return True,( (y-x)//s,)+tuple(shape[d+1:])
        return False,None
    INF=10**9; best=[INF]*(b-a+1); prev=[None]*(b-a+1); best[0]=0
    for j in range(1,b-a+1):
        for i in range(j):
            ok,shp=valid(a+i,a+j)
            if ok and best[i]+1<best[j]: best[j]=best[i]+1; prev[j]=(i,shp)
    out=[]; j=b-a
    while j>0: i,shp=prev[j]; out.append((a+i,a+j,shp)); j=i
    return out[::-1]
S=int(sys.argv[1]); dt=torch.float64
shapes=[(5,4),(3,),(2,3,3),(4,4)]
kw=dict(lr=0.01, betas=(0.9,0.99), epsilon=1e-3, momentum=0.5, weight_decay=0.01, max_preconditioner_dim=3, precondition_frequency=2, start_preconditioning_step=2, grafting_config=AdamGraftingConfig(beta2=0.99,epsilon=1e-8), preconditioner_dtype=dt)
g0=torch.Generator().manual_seed(0)
full=[torch.randn(s,generator=g0,dtype=dt) for s in shapes]
grads=[[torch.randn(s,generator=g0,dtype=dt) for s in shapes] for _ in range(6)]
# flat-parameter sharding: concatenate, pad, chunk over S ranks
numels=[f.numel() for f in full]; total=sum(numels); per=-(-total//S); offs=[0]
for x in numels: offs.append(offs[-1]+x)
def shard_range(i,r):
    lo=max(offs[i],r*per); hi=min(offs[i+1],(r+1)*per); 
    return (lo-offs[i],hi-offs[i]) if hi>lo else (0,0)
torch._C._distributed_c10d._set_thread_isolation_mode(True); _install_threaded_pg(); store=dist.HashStore()
results={}; errors={}
def run_rank(rank):
    try:
        dist.init_process_group(backend="threaded", rank=rank, world_size=S, store=store)
        ps=[]; md={}; rng=[]
        for i,f in enumerate(full):
            a,b=shard_range(i,rank); p=torch.nn.Parameter(f.flatten()[a:b].clone()); ps.append(p); rng.append((a,b))
            md[p]=FSDPParameterMetadata(fqn=f"p{i}",shape=f.shape,numel=f.numel(),start_idx=a,end_idx=b,sharding_strategy=ShardingStrategy.FULL_SHARD)
        opt=DistributedShampoo(ps, distributed_config=FSDPShampooConfig(param_to_metadata=md), **kw)
        # serial twin on reference slabs
        tw=[]; twmap=[]
        for i,f in enumerate(full):
            a,b=rng[i]
            for (x,y,shp) in (ref_slabs(tuple(f.shape),a,b) if b>a else []):
                tw.append(torch.nn.Parameter(f.flatten()[x:y].clone().view(shp))); twmap.append((i,x,y,shp))
        topt=DistributedShampoo(tw, **kw)
        bit=True; worst=0
        for s in range(6):
            for i,p in enumerate(ps):
                a,b=rng[i]; p.grad=grads[s][i].flatten()[a:b].clone() if b>a else None
            for q,(i,x,y,shp) in zip(tw,twmap): q.grad=grads[s][i].flatten()[x:y].clone().view(shp)
            opt.step(); topt.step()
            for q,(i,x,y,shp) in zip(tw,twmap):
                a,b=rng[i]; mine=ps[i].detach()[x-a:y-a]; bit&=torch.equal(mine,q.detach().flatten()); worst=max(worst,(mine-q.detach().flatten()).abs().max().item())
        results[rank]=(bit,worst,[(i,x,y,shp) for (i,x,y,shp) in twmap])
    except BaseException as e:
        errors[rank]=traceback.format_exc() if not isinstance(e, SystemExit) else "sysexit"; ProcessLocalGroup.exception_handle(e)
    finally:
        try: dist.destroy_process_group()
        except Exception: pass
ths=[threading.Thread(target=run_rank,args=(r,),daemon=True) for r in range(S)]
[t.start() for t in ths]; [t.join(60) for t in ths]
for r in range(S):
    if r in results: print("rank",r,"bitwise",results[r][0],"maxdiff",results[r][1],"slabs",results[r][2])
for r,e in errors.items(): print("ERR",r,e[-600:])
