import sys, time, torch, logging, itertools
logging.disable(logging.ERROR); torch.set_num_threads(1)
import warnings; warnings.filterwarnings("ignore")
from distributed_shampoo import *
from matrix_functions_types import QRConfig
idx=int(sys.argv[1])
confs=[]
for be in ("eager","aot_eager"):
  for dyn in (False,True,None):
    for variant in range(4):
        confs.append((be,dyn,variant))
be,dyn,variant=confs[idx]
def kw(variant):
    base=dict(lr=0.01, epsilon=1e-3, max_preconditioner_dim=4, precondition_frequency=2, start_preconditioning_step=3, preconditioner_dtype=torch.float64)
    if variant==0: base.update(betas=(0.9,0.99), momentum=0.5, use_nesterov=True, weight_decay=0.01, use_decoupled_weight_decay=True, grafting_config=AdamGraftingConfig(beta2=0.95,epsilon=1e-6))
    if variant==1: base.update(betas=(0.0,1.0), momentum=0.0, weight_decay=0.02, use_decoupled_weight_decay=False, grafting_config=SGDGraftingConfig())
    if variant==2: base.update(betas=(0.8,0.9), beta3=0.7, use_bias_correction=False, momentum=0.6, dampening=0.1, grafting_config=RMSpropGraftingConfig(beta2=0.9,epsilon=1e-5))
    if variant==3: base.update(betas=(0.9,0.95), grafting_config=None, preconditioner_config=EigenvalueCorrectedShampooPreconditionerConfig(amortized_computation_config=QRConfig()))
    return base
def train(cfg):
    g0=torch.Generator().manual_seed(0); shapes=[(6,5),(7,),(2,3,4)]
    ps=[torch.nn.Parameter(torch.randn(s,generator=g0,dtype=torch.float64)) for s in shapes]
    opt=DistributedShampoo(ps, shampoo_pt2_compile_config=cfg, **kw(variant)); out=[]
    for s in range(9):
        for i,p in enumerate(ps):
            p.grad=torch.randn(p.shape,generator=g0,dtype=torch.float64)
        if s in (4,5): ps[1].grad=None
        if s==7: ps[2].grad=None
        opt.step(); out.append([p.detach().clone() for p in ps])
    return out
t=time.time(); a=train(None)
try:
    b=train(ShampooPT2CompileConfig(pytorch_compile_backend=be, enable_shampoo_pt2_dynamic_shape=dyn))
    from torch._dynamo.utils import counters
    bit=all(torch.equal(x,y) for sa,sb in zip(a,b) for x,y in zip(sa,sb)); md=max((x-y).abs().max().item() for sa,sb in zip(a,b) for x,y in zip(sa,sb))
    print(idx,be,dyn,variant,"bitwise",bit,"maxdiff",md,"frames",dict(counters["stats"]).get("unique_graphs"), "time",round(time.time()-t,1))
except Exception as e:
    print(idx,be,dyn,variant,"EXC",type(e).__name__,str(e)[:200])
