import torch, threading, traceback, sys, logging
import torch.distributed as dist
from torch.testing._internal.distributed.multi_threaded_pg import _install_threaded_pg, ProcessLocalGroup
from torch.distributed.device_mesh import init_device_mesh
from torch.distributed.tensor import DTensor, Shard, Replicate
from distributed_shampoo import *
from distributed_shampoo.shampoo_types import HybridShardShampooConfig
import distributed_shampoo.utils.shampoo_dist_utils as du, distributed_shampoo.utils.shampoo_hybrid_shard_distributor as m3
logging.disable(logging.ERROR); torch.set_num_threads(1)
_tl=threading.local(); raw=du.get_device_mesh.__wrapped__
def gdm(device_type, mesh, mesh_dim_names=None):
    c=_tl.__dict__.setdefault("c",{}); k=(device_type,mesh,mesh_dim_names)
    if k not in c: c[k]=raw(device_type,mesh,mesh_dim_names)
    return c[k]
du.get_device_mesh=gdm; m3.get_device_mesh=gdm
mode=sys.argv[1]; R=int(sys.argv[2]); S=int(sys.argv[3]); G=int(sys.argv[4]); W=R*S; dt=torch.float64
shapes=[(3,),(7,5),(2,3,4),(5,2)]   # (3,) and (2,3,4) leave some ranks with empty shards when S=4
kw=dict(lr=0.01, betas=(0.9,0.99), epsilon=1e-3, momentum=0.5, weight_decay=0.01, max_preconditioner_dim=3, precondition_frequency=2, start_preconditioning_step=2, grafting_config=AdamGraftingConfig(beta2=0.99,epsilon=1e-8), preconditioner_dtype=dt)
g0=torch.Generator().manual_seed(0)
full=[torch.randn(s,generator=g0,dtype=dt) for s in shapes]
grads=[[torch.randn(s,generator=g0,dtype=dt) for s in shapes] for _ in range(6)]
def loc(t,srank):
    ch=list(torch.chunk(t,S,dim=0)); return ch[srank].clone() if srank<len(ch) else t.new_zeros((0,)+t.shape[1:])
torch._C._distributed_c10d._set_thread_isolation_mode(True); _install_threaded_pg(); store=dist.HashStore()
results={}; errors={}
def run_rank(rank):
    try:
        dist.init_process_group(backend="threaded", rank=rank, world_size=W, store=store)
        if mode=="hybrid":
            mesh=init_device_mesh("cpu",(R,S),mesh_dim_names=("replicate","shard")); srank=mesh.get_local_rank(1); pl=[Replicate(),Shard(0)]
            cfg=HybridShardShampooConfig(device_mesh=mesh, num_trainers_per_group=G)
        else:
            mesh=init_device_mesh("cpu",(W,)); srank=rank; pl=[Shard(0)]; cfg=FullyShardShampooConfig()
        mk=lambda t,f: DTensor.from_local(t, mesh, pl, run_check=False, shape=f.shape, stride=f.stride())
        ps=[torch.nn.Parameter(mk(loc(f,srank),f)) for f in full]
        opt=DistributedShampoo(ps, distributed_config=cfg, **kw)
        tw=[(i,torch.nn.Parameter(loc(f,srank))) for i,f in enumerate(full) if loc(f,srank).numel()>0]
        topt=DistributedShampoo([q for _,q in tw], **kw)
        bit=True; worst=0.0
        for s in range(6):
            for i,(p,f) in enumerate(zip(ps,full)):
                absent=(s==3 and i==1)
                p.grad=None if absent else mk(loc(grads[s][i],srank),f)
            for i,q in tw: q.grad=None if (s==3 and i==1) else loc(grads[s][i],srank)
            opt.step(); topt.step()
            for i,q in tw:
                a=ps[i].to_local().detach(); bit&=torch.equal(a,q.detach()); worst=max(worst,(a-q.detach()).abs().max().item())
        results[rank]=(bit,worst,[tuple(p.to_local().shape) for p in ps])
    except BaseException as e:
        errors[rank]=traceback.format_exc() if not isinstance(e, SystemExit) else "sysexit"; ProcessLocalGroup.exception_handle(e)
    finally:
        try: dist.destroy_process_group()
        except Exception: pass
ths=[threading.Thread(target=run_rank,args=(r,),daemon=True) for r in range(W)]
[t.start() for t in ths]; [t.join(60) for t in ths]
print(mode,R,S,G,{r:(v[0],v[1]) for r,v in sorted(results.items())}, "local shapes rank-last:", results.get(W-1,(0,0,None))[2])
for r,e in errors.items():
    if e!="sysexit": print("ERR",r,e[-700:])
