import torch, logging, hashlib, random
logging.disable(logging.ERROR); torch.set_num_threads(1)
from distributed_shampoo import *
from distributed_shampoo.shampoo_types import PreconditionerValueError
from distributed_shampoo.utils.shampoo_checkpoint_utils import extract_state_dict_content, flatten
def digest(opt,p):
    h=hashlib.sha256(); h.update(p.detach().contiguous().view(torch.uint8).numpy().tobytes())
    for k,v in sorted(flatten(extract_state_dict_content(opt.state[p])).items()):
        if k=='["step"]': continue
        h.update(k.encode()); h.update(v.detach().contiguous().view(torch.uint8).numpy().tobytes())
    return h.hexdigest()
rnd=random.Random(0); bad=0; checked=0
for trial in range(60):
    g0=torch.Generator().manual_seed(trial)
    ps=[torch.nn.Parameter(torch.randn(4,3,generator=g0)) for _ in range(4)]
    soap=trial%3==0
    kw=dict(lr=0.01, betas=(0.9 if trial%2 else 0.0,0.99), epsilon=1e-6, momentum=0.5 if trial%4<2 else 0.0, weight_decay=0.01, max_preconditioner_dim=2 if trial%5==0 else 8, precondition_frequency=2, start_preconditioning_step=2, grafting_config=[None,SGDGraftingConfig(),AdamGraftingConfig(beta2=0.9,epsilon=1e-6),AdaGradGraftingConfig(epsilon=1e-6)][trial%4])
    if soap: kw["preconditioner_config"]=DefaultEigenvalueCorrectedShampooConfig
    opt=DistributedShampoo(ps, **kw)
    for s in range(10):
        mask=[rnd.random()<0.6 for _ in ps]
        for i,p in enumerate(ps): p.grad=(torch.randn(4,3,generator=g0)*(10**i)) if mask[i] else None
        before=[digest(opt,p) for p in ps]; step0=int(opt.state[ps[0]]["step"])
        opt.step()
        for i,p in enumerate(ps):
            if not mask[i]:
                checked+=1
                if digest(opt,p)!=before[i]: bad+=1; print("CHANGED absent param",trial,s,i)
        if not any(mask) and int(opt.state[ps[0]]["step"])!=step0: bad+=1; print("step advanced",trial,s)
print("absent-param checks",checked,"violations",bad)
# poison at refresh step
viol=0
for soap in (False,True):
  for kind in (float('nan'), float('inf')):
    g0=torch.Generator().manual_seed(1)
    ps=[torch.nn.Parameter(torch.randn(4,3,generator=g0)) for _ in range(2)]
    kw=dict(lr=0.01, betas=(0.9,0.99), epsilon=1e-6, precondition_frequency=2, start_preconditioning_step=2)
    if soap: kw["preconditioner_config"]=DefaultEigenvalueCorrectedShampooConfig
    opt=DistributedShampoo(ps, **kw)
    for s in range(1,5):
        for p in ps: p.grad=torch.randn(4,3,generator=g0)
        if s==4: ps[1].grad[0,0]=kind
        snap=[p.detach().clone() for p in ps]
        try:
            opt.step(); raised=None
        except Exception as e: raised=type(e).__name__
        if s==4:
            same=all(torch.equal(a,b.detach()) for a,b in zip(snap,ps))
            print("soap",soap,"poison",kind,"raised",raised,"params unchanged",same)
