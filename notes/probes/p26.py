import torch, math, itertools, logging, random, copy, io
logging.disable(logging.ERROR); torch.set_num_threads(1)
from distributed_shampoo.utils.shampoo_fsdp_distributor import FSDPDistributor
from distributed_shampoo.utils.shampoo_hsdp_distributor import HSDPDistributor
# ---- C15 exhaustive small
def ref(shape,a,b):
    n=len(shape); strides=[math.prod(shape[d+1:]) for d in range(n)]
    def valid(x,y):
        if n==0: return ((x,y)==(0,1)), (1,)
        for d in range(n):
            s=strides[d]; blk=s*shape[d]
            if x%s==0 and y%s==0 and x//blk==(y-1)//blk: return True,((y-x)//s,)+tuple(shape[d+1:])
        return False,None
    INF=10**9; best=[INF]*(b-a+1); prev=[None]*(b-a+1); best[0]=0
    for j in range(1,b-a+1):
        for i in range(j):
            ok,shp=valid(a+i,a+j)
            if ok and best[i]+1<best[j]: best[j]=best[i]+1; prev[j]=(i,shp)
    out=[]; j=b-a
    while j>0: i,shp=prev[j]; out.append((a+i,a+j,shp)); j=i
    return out[::-1]
cases=0; bad=0
for order in (0,1,2,3,4):
    for shape in itertools.product((1,2,3),repeat=order):
        N=math.prod(shape)
        for a in range(N+1):
            for b in range(a,N+1):
                shard=torch.arange(a,b,dtype=torch.float32)
                got=FSDPDistributor._split_tensor_block_recovery(shard,torch.Size(shape),a,b)
                got2=HSDPDistributor._split_tensor_block_recovery(shard,torch.Size(shape),a,b)
                exp=ref(shape,a,b); cases+=1
                g=[(int(t.flatten()[0].item()),int(t.flatten()[-1].item())+1,tuple(t.shape)) for t in got]
                ok=(g==exp) and all(t.untyped_storage().data_ptr()==shard.untyped_storage().data_ptr() for t in got) and [tuple(t.shape) for t in got]==[tuple(t.shape) for t in got2]
                if not ok:
                    bad+=1
                    if bad<6: print("C15 mismatch",shape,a,b,g,exp)
print("C15 cases",cases,"mismatches",bad)
