import torch, random, logging, copy, io, itertools, math
logging.disable(logging.CRITICAL); torch.set_num_threads(1)
from distributed_shampoo.utils.shampoo_checkpoint_utils import flatten, unflatten
from optimizer_modules import OptimizerModule
rnd=random.Random(0)
KEYS=["", ".", "/", "a.b", "[", "]", '"', '["a"]', "0", 0, 1, -1, 10**20, "é", "\ud800", " ", "a", "b", '\\', "null", "true"]
def gen(depth, leafless_ok):
    d={}
    for k in rnd.sample(KEYS, rnd.randint(1,4)):
        r=rnd.random()
        if depth<5 and r<0.45:
            sub=gen(depth+1, leafless_ok)
            d[k]=sub
        elif leafless_ok and r<0.55: d[k]={}
        else: d[k]=torch.tensor(rnd.random())
    return d
def leaves(d, path=()):
    for k,v in d.items():
        if isinstance(v,dict): yield from leaves(v,path+(k,))
        else: yield path+(k,), v
def eq(a,b):
    if isinstance(a,dict):
        return isinstance(b,dict) and list(map(lambda k:(type(k),k),a.keys()))==list(map(lambda k:(type(k),k),b.keys())) and all(eq(a[k],b[k]) for k in a)
    return a is b
def prune(d):
    out={}
    for k,v in d.items():
        if isinstance(v,dict):
            p=prune(v)
            if p: out[k]=p
        else: out[k]=v
    return out
bad=0; n=0
for t in range(20000):
    leafless=t%2==1; d=gen(0,leafless); f=flatten(d); u=unflatten(f); n+=1
    L=list(leaves(d))
    if len(f)!=len(L): bad+=1; print("injectivity",d) if bad<4 else None
    exp=prune(d)
    # order of keys can differ after pruning/unflatten? compare as nested with sorted-insensitive equality
    def eq2(a,b):
        if isinstance(a,dict): return isinstance(b,dict) and {(type(k),k) for k in a}=={(type(k),k) for k in b} and all(eq2(a[k],b[k]) for k in a)
        return a is b
    if not eq2(exp,u): bad+=1; print("roundtrip",d,u) if bad<4 else None
print("C16 flatten cases",n,"bad",bad)
# OptimizerModule graphs
class M(OptimizerModule):
    def __init__(self, depth=0):
        self.t=torch.tensor([rnd.random()]); self.n=rnd.randint(0,9); self.s="x"
        self.tup=tuple(torch.tensor([rnd.random()]) for _ in range(rnd.randint(0,3)))
        self.lst=[torch.tensor([rnd.random()]), (torch.tensor([rnd.random()]), 3)]
        self.d={"a":torch.tensor([rnd.random()]), 1:{"b":[torch.tensor([rnd.random()])]}}
        if depth<2: self.child=M(depth+1); self.children=(M(depth+2), )
def tensors(o, seen=None):
    if isinstance(o,torch.Tensor): yield o
    elif isinstance(o,OptimizerModule):
        for v in o.__dict__.values(): yield from tensors(v)
    elif isinstance(o,dict):
        for v in o.values(): yield from tensors(v)
    elif isinstance(o,(list,tuple)):
        for v in o: yield from tensors(v)
def sd_leaves(d):
    for v in d.values():
        if isinstance(v,dict): yield from sd_leaves(v)
        elif isinstance(v,torch.Tensor): yield v
bad=0
for t in range(300):
    st=rnd.getstate(); a=M(); rnd.setstate(st); b=M()          # structurally equal twins
    for x in tensors(b): x.add_(1.0)
    sd=a.state_dict()
    ta=list(tensors(a)); la=list(sd_leaves(sd))
    if sorted(x.data_ptr() for x in ta)!=sorted(x.data_ptr() for x in la): bad+=1; print("state_dict misses tensors", len(ta), len(la))
    ids=[(id(x),x.data_ptr()) for x in tensors(b)]
    b.load_state_dict(copy.deepcopy(sd))
    if [(id(x),x.data_ptr()) for x in tensors(b)]!=ids: bad+=1; print("tensor objects replaced")
    if not all(torch.equal(x,y) for x,y in zip(tensors(a),tensors(b))): bad+=1; print("values differ")
print("C16 module cases 300 bad",bad)
