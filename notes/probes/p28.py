import torch, logging, io, random, copy
logging.disable(logging.CRITICAL); torch.set_num_threads(1)
from distributed_shampoo import *
from matrix_functions_types import QRConfig, CoupledNewtonConfig
from distributed_shampoo.utils.shampoo_checkpoint_utils import extract_state_dict_content, flatten
rnd=random.Random(0)
def mk_kw(v):
    kw=dict(lr=0.01, betas=(0.9,0.95), epsilon=1e-4, max_preconditioner_dim=3, precondition_frequency=2, start_preconditioning_step=3)
    if v%6==0: kw.update(momentum=0.5,use_nesterov=True,weight_decay=0.01,grafting_config=AdamGraftingConfig(beta2=0.9,epsilon=1e-6))
    if v%6==1: kw.update(betas=(0.0,1.0),grafting_config=SGDGraftingConfig(),momentum=0.3,use_decoupled_weight_decay=False,weight_decay=0.02)
    if v%6==2: kw.update(preconditioner_config=EigenvalueCorrectedShampooPreconditionerConfig(amortized_computation_config=QRConfig(max_iterations=2)))
    if v%6==3: kw.update(preconditioner_config=DefaultEigenvalueCorrectedShampooConfig, grafting_config=RMSpropGraftingConfig(beta2=0.9,epsilon=1e-5), beta3=0.5)
    if v%6==4: kw.update(preconditioner_config=ShampooPreconditionerConfig(amortized_computation_config=CoupledNewtonConfig()), inv_root_override=2, use_bias_correction=False, grafting_config=AdaGradGraftingConfig(epsilon=1e-6))
    if v%6==5: kw.update(use_merge_dims=False, inv_root_override=[1,2,3], momentum=0.2, dampening=0.1)
    return kw
def build(ps, v):
    kw=mk_kw(v)
    if v%2: groups=[{"params":ps[:1],"lr":0.02,"weight_decay":0.0},{"params":ps[1:],"betas":(0.8,0.9)}]
    else: groups=[{"params":ps}]
    return DistributedShampoo(groups, **kw)
def state_bytes(opt, ps):
    out=[]
    for p in ps:
        out.append(p.detach().clone())
        for k,vv in sorted(flatten(extract_state_dict_content(opt.state[p])).items()): out.append(vv.detach().clone())
    return out
T=7; bad=0; runs=0
for v in range(12):
    g0=torch.Generator().manual_seed(v); shapes=[(5,4),(7,),(2,3,2)]
    init=[torch.randn(s,generator=g0) for s in shapes]
    grads=[[torch.randn(s,generator=g0) for s in shapes] for _ in range(T)]
    pres=[[rnd.random()<0.8 for _ in shapes] for _ in range(T)]
    ps=[torch.nn.Parameter(x.clone()) for x in init]; opt=build(ps,v)
    names=lambda P:[(f"p{i}",p) for i,p in enumerate(P)]
    traj=[]; saved=[]
    def snap():
        b=io.BytesIO(); torch.save(opt.distributed_state_dict(key_to_param=iter(names(ps))),b); return b.getvalue(), [p.detach().clone() for p in ps]
    saved.append(snap())
    for s in range(T):
        if s==3: opt.param_groups[0]["lr"]*=0.5
        for p,g,m in zip(ps,grads[s],pres[s]): p.grad=g.clone() if m else None
        opt.step(); traj.append(state_bytes(opt,ps)); saved.append(snap())
    for k in range(T+1):
        blob,pk=saved[k]; ps2=[torch.nn.Parameter(x.clone()) for x in pk]; o2=build(ps2,v)
        o2.load_distributed_state_dict(torch.load(io.BytesIO(blob),weights_only=False), key_to_param=iter(names(ps2))); runs+=1
        for s in range(k,T):
            if s==3: o2.param_groups[0]["lr"]*=0.5
            for p,g,m in zip(ps2,grads[s],pres[s]): p.grad=g.clone() if m else None
            o2.step()
            sb=state_bytes(o2,ps2)
            if not all(torch.equal(a,b) for a,b in zip(sb,traj[s])): bad+=1; print("DIVERGE variant",v,"k",k,"step",s); break
print("C09 resumes",runs,"divergences",bad)
