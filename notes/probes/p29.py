import torch, logging, math, itertools
logging.disable(logging.CRITICAL); torch.set_num_threads(1)
from distributed_shampoo import *
nan=float('nan'); eps=1e-9
grid=dict(
 lr=[-eps,0.0,0.01,nan],
 beta1=[-eps,0.0,0.5,1-1e-9,1.0,nan],
 beta2=[0.0,eps,0.5,1.0,1+1e-9,nan],
 beta3=[-1.0,-eps,0.0,0.5,1-1e-9,1.0,nan,-1],
 epsilon=[0.0,-eps,1e-300,1e-12,nan],
 momentum=[-eps,0.0,0.5,1-1e-9,1.0,nan],
 dampening=[-eps,0.0,0.5,1-1e-9,1.0,nan],
 weight_decay=[-eps,0.0,0.1,nan],
 max_preconditioner_dim=[0,1,2,1024],
 precondition_frequency=[0,1,2,5],
 start_preconditioning_step=[-2,-1,0,1,2,5,10**6],
 inv_root_override=[-1,0,1,4,[0,1],[2,-1],[]],
)
def valid(c):
    f=lambda x: not (isinstance(x,float) and math.isnan(x))
    ok = f(c["lr"]) and c["lr"]>=0
    ok&= f(c["beta1"]) and 0<=c["beta1"]<1
    ok&= f(c["beta2"]) and 0<c["beta2"]<=1
    ok&= (c["beta3"]==-1) or (f(c["beta3"]) and 0<=c["beta3"]<1)
    ok&= f(c["epsilon"]) and c["epsilon"]>0
    ok&= f(c["momentum"]) and 0<=c["momentum"]<1
    ok&= f(c["dampening"]) and 0<=c["dampening"]<1
    ok&= f(c["weight_decay"]) and c["weight_decay"]>=0
    ok&= c["max_preconditioner_dim"]>=1
    ok&= c["precondition_frequency"]>=1
    st=c["start_preconditioning_step"]; ok&= (st==-1) or (st>=c["precondition_frequency"] and st>=-1)
    o=c["inv_root_override"]; ok&= all(e>=0 for e in o) if isinstance(o,list) else o>=0
    return ok
base=dict(lr=0.01,beta1=0.9,beta2=0.99,beta3=-1.0,epsilon=1e-12,momentum=0.5,dampening=0.1,weight_decay=0.01,max_preconditioner_dim=4,precondition_frequency=2,start_preconditioning_step=-1,inv_root_override=0)
def build(c):
    p=torch.nn.Parameter(torch.zeros(2,2))
    return DistributedShampoo([p], lr=c["lr"], betas=(c["beta1"],c["beta2"]), beta3=c["beta3"], epsilon=c["epsilon"], momentum=c["momentum"], dampening=c["dampening"], weight_decay=c["weight_decay"], max_preconditioner_dim=c["max_preconditioner_dim"], precondition_frequency=c["precondition_frequency"], start_preconditioning_step=c["start_preconditioning_step"], inv_root_override=c["inv_root_override"])
n=0; bad=0
keys=list(grid)
for a,b in itertools.combinations_with_replacement(keys,2):
    for va in grid[a]:
        for vb in (grid[b] if b!=a else [None]):
            c=dict(base); c[a]=va
            if b!=a: c[b]=vb
            exp=valid(c); n+=1
            try: o=build(c); got=True; 
            except ValueError: got=False
            except Exception as e: got=type(e).__name__
            if got!=exp:
                bad+=1
                if bad<8: print("MISMATCH",a,va,b,vb,"expected accept" if exp else "expected ValueError","got",got)
            elif got is True:
                g=o.param_groups[0]
                if c["beta3"]==-1 and g["beta3"]!=c["beta1"]: bad+=1; print("beta3 default",c)
                if c["start_preconditioning_step"]==-1 and g["start_preconditioning_step"]!=c["precondition_frequency"]: bad+=1; print("start default",c)
print("C17 constructions",n,"mismatches",bad)
