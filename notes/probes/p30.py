import torch, random, itertools, types, logging
logging.disable(logging.CRITICAL)
from functools import lru_cache
from distributed_shampoo.utils.shampoo_ddp_distributor import DDPDistributor
from distributed_shampoo.utils.shampoo_hsdp_distributor import HSDPDistributor
from distributed_shampoo.utils.shampoo_hybrid_shard_distributor import HybridShardDistributor
def call(cls, sizes, G):
    fake=types.SimpleNamespace(_group_size=G,_dist_group_size=G)
    return cls._distribute_buffer_sizes(fake, tuple(sizes))
def lpt_consistent(aligned, ranks, G):
    # size classes descending; within class any order, each to some least-loaded rank
    loads=[0]*G
    for s in sorted(set(aligned), reverse=True):
        need=[0]*G
        for a,r in zip(aligned,ranks):
            if a==s: need[r]+=1
        @lru_cache(None)
        def feas(loads_t, need_t):
            if sum(need_t)==0: return loads_t
            m=min(loads_t)
            for r in range(G):
                if loads_t[r]==m and need_t[r]>0:
                    l=list(loads_t); n=list(need_t); l[r]+=s; n[r]-=1
                    res=feas(tuple(l),tuple(n))
                    if res is not None: return res
            return None
        res=feas(tuple(loads),tuple(need))
        if res is None: return False
        loads=list(res)
    return True
def opt_makespan(aligned,G):
    best=[float('inf')]
    def rec(i,loads):
        if max(loads)>=best[0]: return
        if i==len(aligned): best[0]=max(loads); return
        seen=set()
        for r in range(G):
            if loads[r] in seen: continue
            seen.add(loads[r]); loads[r]+=aligned[i]; rec(i+1,loads); loads[r]-=aligned[i]
    rec(0,[0]*G); return best[0]
rnd=random.Random(0); n=0; bad=0
print("docstring example:", call(DDPDistributor,[128,64,500,256],2))
for trial in range(4000):
    G=rnd.randint(1,6 if trial%4 else 16); k=rnd.randint(1,9 if trial%4 else 60)
    sizes=[rnd.choice([1,4,63,64,65,128,500,512,1000]) for _ in range(k)]
    outs=[call(c,sizes,G) for c in (DDPDistributor,HSDPDistributor,HybridShardDistributor)]
    n+=1
    if not (outs[0]==outs[1]==outs[2]): bad+=1; print("copies disagree"); continue
    out=outs[0]; aligned=[a for a,_ in out]; ranks=[r for _,r in out]
    ok=all(a%64==0 and a>=s and a-s<64 for a,s in zip(aligned,sizes)) and all(0<=r<G for r in ranks)
    ok&=lpt_consistent(tuple(aligned),tuple(ranks),G)
    loads=[sum(a for a,r in out if r==g) for g in range(G)]
    ok&= max(loads)-min(loads)<=max(aligned)
    if k<=9 and G<=4: ok&= 3*max(loads)<=4*opt_makespan(sorted(aligned,reverse=True),G)
    ok&= call(DDPDistributor,sizes,G)==out
    if not ok: bad+=1; print("VIOLATION",sizes,G,out)
    # buffers
    mx=max(loads); buf=torch.zeros(mx*G,dtype=torch.int8); loc=torch.split(buf,mx) if mx>0 else ()
    views=DDPDistributor._split_local_dist_buffers(out, loc)
    spans=[]
    for (a,r),v in zip(out,views):
        off=v.data_ptr()-buf.data_ptr(); spans.append((off,off+v.numel()))
        if not (v.numel()==a and r*mx<=off and off+a<=(r+1)*mx): bad+=1; print("buffer outside owner segment")
    spans.sort()
    if any(x[1]>y[0] for x,y in zip(spans,spans[1:])): bad+=1; print("overlap")
print("C14 cases",n,"bad",bad)
