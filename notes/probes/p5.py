import torch, logging
logging.disable(logging.WARNING)
from distributed_shampoo import *
# C01: SGD grafting, no bias correction, beta1>0, warmup: filtered grad corrupted in place?
g0=torch.Generator().manual_seed(0)
p=torch.nn.Parameter(torch.randn(3,2,generator=g0))
opt=DistributedShampoo([p], lr=0.1, betas=(0.9,1.0), epsilon=1e-8, precondition_frequency=1, start_preconditioning_step=100, use_bias_correction=False, grafting_config=SGDGraftingConfig(), weight_decay=0.0)
m=torch.zeros(3,2)
for s in range(3):
    g=torch.randn(3,2,generator=g0); p.grad=g.clone()
    m=0.9*m+0.1*g
    opt.step()
    fg=opt.state[p]["block_0"]["filtered_grad"].view(3,2)
    print("step",s,"filtered_grad matches EMA:", torch.allclose(fg,m), "ratio", (fg/m).flatten()[:3].tolist())
    m=fg.clone()
