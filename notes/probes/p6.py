import torch, logging
logging.disable(logging.ERROR)
from distributed_shampoo import *
import distributed_shampoo.utils.shampoo_preconditioner_list as pl
# C13: counter reset on mask change
g0=torch.Generator().manual_seed(0)
ps=[torch.nn.Parameter(torch.randn(3,2,generator=g0)) for _ in range(2)]
orig=pl.matrix_inverse_root
fail={"on":True}
def flaky(A, **kw):
    if fail["on"] and A.shape[0]==3: raise RuntimeError("injected")
    return orig(A=A, **kw)
pl.matrix_inverse_root=flaky
opt=DistributedShampoo(ps, lr=0.1, betas=(0.0,1.0), epsilon=1e-8, precondition_frequency=1, start_preconditioning_step=1, use_merge_dims=False, preconditioner_config=ShampooPreconditionerConfig(num_tolerated_failed_amortized_computations=2))
for s in range(12):
    ps[0].grad=torch.randn(3,2,generator=g0)
    ps[1].grad=torch.randn(3,2,generator=g0) if s%2==0 else None   # mask toggles every step
    try:
        opt.step(); print("step",s,"ok")
    except Exception as e:
        print("step",s,"RAISED",type(e).__name__); break
pl.matrix_inverse_root=orig
# C03: QR with bf16 params and fp32 factors
p=torch.nn.Parameter(torch.randn(4,3,generator=g0).bfloat16())
opt=DistributedShampoo([p], lr=0.01, betas=(0.9,0.99), epsilon=1e-8, precondition_frequency=1, start_preconditioning_step=1, preconditioner_config=DefaultSOAPConfig)
for s in range(8):
    p.grad=torch.randn(4,3,generator=g0).bfloat16()
    try: opt.step(); print("soap step",s,"ok")
    except Exception as e: print("soap step",s,"RAISED",type(e).__name__, str(e)[:100]); break
