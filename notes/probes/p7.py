import time, torch, threading, traceback, sys, functools
import torch.distributed as dist
from torch.testing._internal.distributed.multi_threaded_pg import _install_threaded_pg, ProcessLocalGroup
from torch.distributed.device_mesh import init_device_mesh
from torch.distributed.tensor import DTensor, Shard, Replicate
from distributed_shampoo import *
from distributed_shampoo.shampoo_types import HybridShardShampooConfig, FSDPParameterMetadata
from torch.distributed.fsdp import ShardingStrategy
import distributed_shampoo.utils.shampoo_dist_utils as du
import distributed_shampoo.utils.shampoo_ddp_distributor as m1, distributed_shampoo.utils.shampoo_hsdp_distributor as m2, distributed_shampoo.utils.shampoo_hybrid_shard_distributor as m3
import logging
logging.disable(logging.WARNING)
# per-thread cache for get_device_mesh (models per-process functools.cache)
_tl=threading.local()
raw=du.get_device_mesh.__wrapped__
def per_thread_get_device_mesh(device_type, mesh, mesh_dim_names=None):
    c=_tl.__dict__.setdefault("c",{})
    k=(device_type,mesh,mesh_dim_names)
    if k not in c: c[k]=raw(device_type,mesh,mesh_dim_names)
    return c[k]
for m in (du,m1,m2,m3): m.get_device_mesh=per_thread_get_device_mesh

mode=sys.argv[1]; R=int(sys.argv[2]); S=int(sys.argv[3]); G=int(sys.argv[4]); W=R*S
torch._C._distributed_c10d._set_thread_isolation_mode(True)
_install_threaded_pg()
store = dist.HashStore()
results={}; errors={}
shapes=[(7,5),(3,),(2,3,4)]
def run_rank(rank):
    try:
        dist.init_process_group(backend="threaded", rank=rank, world_size=W, store=store)
        g0=torch.Generator().manual_seed(0)
        full=[torch.randn(s,generator=g0) for s in shapes]
        if mode=="hybrid":
            mesh=init_device_mesh("cpu",(R,S),mesh_dim_names=("replicate","shard"))
            srank=mesh.get_local_rank(1)
            ps=[]
            for f in full:
                chunks=list(torch.chunk(f,S,dim=0)); 
                loc=chunks[srank].clone() if srank<len(chunks) else f.new_zeros((0,)+f.shape[1:])
                ps.append(torch.nn.Parameter(DTensor.from_local(loc, mesh, [Replicate(), Shard(0)], run_check=False, shape=f.shape, stride=f.stride())))
            cfg=HybridShardShampooConfig(device_mesh=mesh, num_trainers_per_group=G)
        elif mode=="fully":
            mesh=init_device_mesh("cpu",(W,))
            srank=rank; S_=W
            ps=[]
            for f in full:
                chunks=list(torch.chunk(f,S_,dim=0)); 
                loc=chunks[srank].clone() if srank<len(chunks) else f.new_zeros((0,)+f.shape[1:])
                ps.append(torch.nn.Parameter(DTensor.from_local(loc, mesh, [Shard(0)], run_check=False, shape=f.shape, stride=f.stride())))
            cfg=FullyShardShampooConfig()
        elif mode=="hsdp":
            mesh=init_device_mesh("cpu",(R,S),mesh_dim_names=("replicate","shard"))
            srank=mesh.get_local_rank(1)
            ps=[]; md={}
            for i,f in enumerate(full):
                n=f.numel(); per=(n+S-1)//S; a=min(srank*per,n); b=min(a+per,n)
                p=torch.nn.Parameter(f.flatten()[a:b].clone()); ps.append(p)
                md[p]=FSDPParameterMetadata(fqn=f"p{i}",shape=f.shape,numel=n,start_idx=a,end_idx=b,sharding_strategy=ShardingStrategy.HYBRID_SHARD)
            cfg=HSDPShampooConfig(param_to_metadata=md, device_mesh=mesh, num_trainers_per_group=G)
        opt=DistributedShampoo(ps, lr=0.01, betas=(0.9,0.99), epsilon=1e-8, momentum=0.5, weight_decay=0.01, max_preconditioner_dim=4, precondition_frequency=2, start_preconditioning_step=2, grafting_config=AdamGraftingConfig(beta2=0.99,epsilon=1e-8), distributed_config=cfg)
        g=torch.Generator().manual_seed(1)
        for s in range(5):
            for p,f in zip(ps,full):
                gf=torch.randn(f.shape, generator=g)
                if mode in("hybrid","fully"):
                    S_=S if mode=="hybrid" else W
                    chunks=list(torch.chunk(gf,S_,dim=0)); loc=chunks[srank].clone() if srank<len(chunks) else gf.new_zeros((0,)+gf.shape[1:])
                    p.grad=DTensor.from_local(loc, p.device_mesh, p.placements, run_check=False, shape=f.shape, stride=f.stride())
                else:
                    mdp=md[p]; p.grad=gf.flatten()[mdp.start_idx:mdp.end_idx].clone()
            opt.step()
        results[rank]=[ (p.to_local() if isinstance(p,DTensor) else p).detach().clone() for p in ps]
    except BaseException as e:
        errors[rank]=traceback.format_exc() if not isinstance(e, SystemExit) else "sysexit"
        ProcessLocalGroup.exception_handle(e)
    finally:
        try: dist.destroy_process_group()
        except Exception as e: pass
ths=[threading.Thread(target=run_rank,args=(r,)) for r in range(W)]
t=time.time()
[t_.start() for t_ in ths]; [t_.join(60) for t_ in ths]
print(mode,R,S,G,"alive", [t_.is_alive() for t_ in ths], "time", round(time.time()-t,3))
for r,e in errors.items():
    if e!="sysexit": print("ERR", r, e[-1200:])
if len(results)==W:
    print("sizes", [[tuple(x.shape) for x in results[r]] for r in range(W)])
    if mode!="fully":
        print("replicas equal", all(all(torch.equal(a,b) for a,b in zip(results[r],results[r+S])) for r in range(W-S)))
