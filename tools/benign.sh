#!/bin/bash
# usage: benign.sh <patch> ; runs all 18 quick checks against a scratch worktree with the patch; prints non-OK lines
patch="$1"
wt=$(mktemp -d /tmp/vf_ben_XXXXXX); rmdir $wt
git -C /repo worktree add -q --detach $wt HEAD || exit 3
out=$(mktemp -d /tmp/vf_benout_XXXXXX)
trap 'git -C /repo worktree remove --force $wt >/dev/null 2>&1; rm -rf $out' EXIT
git -C $wt apply "$patch" || { echo "PATCH DOES NOT APPLY"; exit 3; }
for c in C01 C02 C03 C04 C05 C06 C07 C08 C09 C10 C11 C12 C13 C14 C15 C16 C17 C18; do
  VERIF_REPO=$wt VERIF_EVIDENCE_DIR=$out/ev VERIF_REPLAY_DIR=$out/rp /verif/check $c quick > $out/$c.log 2>&1; rc=$?
  if [ $rc -ne 0 ]; then echo "$(basename $(dirname $patch)) $c rc=$rc: $(grep -E '^(VIOLATION|INCONCLUSIVE|  what)' $out/$c.log | head -3 | cut -c1-300 | tr '\n' ' ')"; fi
done
echo "$(basename $(dirname $patch)) done"
