#!/usr/bin/env python3
"""Regenerate the seeded-change table of DESIGN.md (between the SEEDED-TABLE markers) from seeded/*/meta.json and the
latest result per (mutant, check) in seeded/MATRIX.tsv."""
import json, os, re
here = os.path.dirname(os.path.dirname(os.path.abspath(__file__)))
last = {}
for line in open(os.path.join(here, "seeded", "MATRIX.tsv")):
    f = line.rstrip("\n").split("\t")
    if len(f) >= 4:
        for c, rc in re.findall(r"== (C\d+) rc=(\d+)", f[3]):
            last[(f[1], c)] = rc
rows = []
for n in sorted(os.listdir(os.path.join(here, "seeded"))):
    mp = os.path.join(here, "seeded", n, "meta.json")
    if not os.path.exists(mp):
        continue
    m = json.load(open(mp))
    s = re.sub(r"\s+", " ", m["summary"]).replace("|", "/")
    s = s[:150] + ("…" if len(s) > 150 else "")
    res = [c for (k, c), rc in sorted(last.items()) if k == n and rc == "1"]
    bad = [c for (k, c), rc in sorted(last.items()) if k == n and rc != "1"]
    col = ", ".join(res) + ("" if not bad else " (not by: " + ", ".join(bad) + ")")
    rows.append(f"| {n} | {m['property']} | {s} | {col or 'not run'} |")
table = ["| id | property | change (start of the author's summary) | caught by (latest quick-tier run) |",
         "|----|----------|----------------------------------------|----------------------------------|"] + rows
p = os.path.join(here, "DESIGN.md")
txt = open(p).read()
a, b = "<!-- SEEDED-TABLE-BEGIN -->", "<!-- SEEDED-TABLE-END -->"
i, j = txt.index(a), txt.index(b)
open(p, "w").write(txt[: i + len(a)] + "\n" + "\n".join(table) + "\n" + txt[j:])
print(len(rows), "rows")
