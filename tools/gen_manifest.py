#!/usr/bin/env python3
"""Regenerates MANIFEST.json from the table below (keeps it schema-valid at all times).
Run: python3 tools/gen_manifest.py   (validates with jsonschema when available)"""
import json, os, sys

HERE = os.path.dirname(os.path.dirname(os.path.abspath(__file__)))
BASE = json.load(open("/root/.vp/BASELINE.json")) if os.path.exists("/root/.vp/BASELINE.json") else {}

# id -> (category, technique, level text, level note, design ref)
CHECKS = {}
NOT_APPLICABLE = {}
ADDENDA = {}
exec(open(os.path.join(HERE, "tools", "manifest_table.py")).read())

props = [json.loads(l) for l in open(os.path.join(HERE, "properties.jsonl"))]
checks = []
for p in props:
    pid = p["id"]
    if pid not in CHECKS:
        continue
    cat, tech, text, note, ref = CHECKS[pid]
    if pid in ADDENDA:
        text = text + " " + ADDENDA[pid]
    checks.append({
        "property_id": pid,
        "quick_cmd": f"./check {pid} quick",
        "thorough_cmd": f"./check {pid} thorough",
        "evidence_file": f"evidence/{pid}.json",
        "replay_cmd_template": f"./check {pid} --replay {{path}}",
        "engine": "vf",
        "level_claimed": {"category": cat, "text": text, "design_ref": ref},
        "level_note": note,
        "technique": tech,
    })
na = [{"property_id": p["id"], "reason": NOT_APPLICABLE.get(p["id"], "check not built yet in this session (planned, see DESIGN.md section 3)")} for p in props if p["id"] not in CHECKS]
man = {
    "version": 1,
    "setup_cmd": "./tools/setup.sh",
    "hooks": {
        "guard": "SHAMPOO_VERIF",
        "enable": "none needed: all monitors attach from the harness (module-namespace wrappers, state inspection, sys.monitoring); ./check exports SHAMPOO_VERIF=1 but /repo contains no guarded code",
        "baseline_off_cmd": "cd /repo && /venv/bin/python -m pytest -ra -q -p no:cacheprovider --timeout=900 --continue-on-collection-errors",
        "source_commits": [],
        "add_only": True,
    },
    "engines": [
        {"name": "vf", "path": "vf/", "serves_properties": [c["property_id"] for c in checks],
         "kind_free_text": "runtime monitoring: real repo code executed on generated / hostile / fault-injected workloads in worker subprocesses; oracles = step-locked float64 reference model, differential twins, structural (storage-level) invariants, collective ledger on simulated ranks; evidence from counters measured by the monitors"},
    ],
    "checks": checks,
    "not_applicable": na,
    "notes": "Technique family: runtime monitoring (no sanitizers apply: pure Python on PyTorch). exit 0 held / exit 1 VIOLATION / exit 2 INCONCLUSIVE (never a VIOLATION line). Known findings: KNOWN_FINDINGS.txt. Genuine defects repaired in /repo as 'fix:' commits are listed there as 'fixed:'.",
}
json.dump(man, open(os.path.join(HERE, "MANIFEST.json"), "w"), indent=1)
print("wrote MANIFEST.json with", len(checks), "checks,", len(na), "not_applicable")
try:
    import jsonschema
    jsonschema.validate(man, json.load(open("/root/.vp/MANIFEST.schema.json")))
    print("schema: valid")
except ImportError:
    print("jsonschema not available in this interpreter; validate with python3-vt")
