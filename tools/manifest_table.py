# id -> (category, technique, level text, level note, design ref)
CHECKS["C15"] = (
    "exploration",
    "runtime monitoring: direct calls of both copies of the recovery routine, judged by an independent slab-grammar + DP-minimum oracle and storage-pointer checks",
    "Every (shape,start,end) in the small-shape space is executed against both copies (exhaustive in the thorough tier: dims<=3 order<=4, dims<=4 order<=3, dims<=2 order 5) plus random large shapes; each result is checked to be views of the shard, an in-order partition, valid slabs and of minimum count (DP). Held-on-what-was-explored, exhaustive below the stated bound.",
    "Trusted: vf/blocking.py DP (forward relaxation over slab edges), torch storage_offset/data_ptr semantics. Shapes beyond numel 20000 / order 5 are not explored.",
    "DESIGN.md 3 C15",
)

CHECKS["C16"] = (
    "exploration",
    "runtime monitoring: generated hostile-key nested dicts and OptimizerModule object graphs pushed through the real flatten/unflatten/state_dict/load_state_dict, judged by structural-equality, injectivity and tensor-identity monitors",
    "Thousands of generated structures per run (depth<=6, hostile key alphabet incl. separators/quotes/brackets/'0' vs 0/huge ints/lone surrogates, leafless sub-dicts; module graphs with tensors, dicts, tuples, lists, nested modules, ignored non-tensors, several dtypes incl. empty tensors); every structure is checked for injectivity (#flat keys == #leaves), exact round trip (nesting, key types, leaf identity; pruned input when leafless parts exist), completeness of state_dict by an independent traversal, and in-place load into a structurally equal twin (object ids and storages unchanged, values equal), directly and through the flatten->unflatten checkpoint path. Sampled, not exhaustive.",
    "Trusted: the harness's own traversal of dict/list/tuple/module graphs; Python dict semantics. Sets and float/bool keys are outside the stated domain and not generated.",
    "DESIGN.md 3 C16",
)

CHECKS["C17"] = (
    "exploration",
    "runtime monitoring: the real constructor executed on a boundary-value grid, judged by an independent predicate of the documented domain and expected exception class",
    "Every value of a per-hyperparameter grid (just-outside, boundary, interior, NaN) is combined one and two at a time (thorough: plus all triples for one baseline) around three valid baselines (~9k constructions quick); accept/reject and exception class are compared with a predicate transcribed from the property text, resolved beta3/start defaults are read back from param_groups; grafting-config bounds and unsupported config subclasses (NotImplementedError) are exercised. The grid is enumerated completely; values between grid points are not explored.",
    "Trusted: the predicate in vf/props/c17.py (transcription of the property text). Per-group overrides and infinite values are outside the stated domain.",
    "DESIGN.md 3 C17",
)

CHECKS["C10"] = (
    "exploration",
    "runtime monitoring: matrix_inverse_root and the iterative routines executed on matrices with constructed spectra, judged against the exact float64 spectral answer with a perturbation-theory error bound",
    "Thousands (quick ~4k, thorough ~60k) of calls over all four solver configs, float32/float64, n=1..128, kappa 1..1/u, scales 1e-6..1e6, rational roots, epsilon sweep, diagonal and 1x1 fast paths. Relative Frobenius error vs the by-construction answer must stay below C_m*n*u*(cond+1)/r + n*tol + float32-exponent term (frozen constants: 16 eigen/Newton/fast, 256 higher-order); flags of the iterative routines are read from their result tuples (CONVERGED => ||M-I||_max<=tol; higher-order residual guard 0.1 recomputed independently). Narrowed claim: for the iterative solvers the accuracy bound is judged only when CONVERGED is reported (a result returned with a non-convergence warning gets the finite/guard checks only); where the bound exceeds 0.1 only weak invariants are enforced. Sampled, not exhaustive.",
    "Trusted: float64 construction A=Q diag(lambda) Q^T (oracle error n*u64*cond, negligible below the 0.1 cut-off except near 1/u64), the first-order bound form calibrated on the unchanged tree (max observed ratio reported in evidence).",
    "DESIGN.md 3 C10, 1.4",
)

CHECKS["C11"] = (
    "exploration",
    "runtime monitoring: the eigendecomposition-based inverse root executed on degenerate symmetric inputs (zero, rank-deficient, slightly indefinite, ties) incl. the injected-failure retry path, judged by algebraic invariants evaluated in float64",
    "Per call: finite; symmetric to rounding; spectrum <= epsilon^(-1/r)(1+delta) with delta at rounding level; strictly positive definite wherever the smallest eigenvalue is above rounding (weak form below); commutes with the input; orthogonal equivariance f(QAQ^T)=Q f(A) Q^T within twice the C10 bound; rejection of every non-square / non-2-D shape with more than one element. Sizes 1..64, float32/float64, both EigenConfig variants, ~1.6k calls quick / ~24k thorough. Sampled.",
    "Trusted: float64 eigvalsh for the judged spectra; Haar rotations generated in float64. The torch.linalg.eigh failure is injected by the harness (monkeypatch restored after the call).",
    "DESIGN.md 3 C11",
)

CHECKS["C12"] = (
    "exploration",
    "runtime monitoring: matrix_eigenvectors executed on PSD matrices with designed spectra and estimates; monitors: orthonormality / diagonalisation residuals, ordering, backward-stability check of one QR step, gap-aware cluster-projector match with a float64 orthogonal iteration",
    "eigh method: ||Q^T Q-I||, off-diagonal of Q^T A Q and ascending order within C*n*u; diagonal flag -> identity (exact), 1x1 -> one. QR method: orthonormal, ascending Rayleigh quotients, zero estimate satisfies the eigh conditions, a single iteration must be a QR factor of A@estimate up to a row permutation (backward check, valid for rank-deficient/unstable inputs), multi-iteration outputs must match the float64 k-fold iteration for some k<=max_iterations on every spectral cluster that is itself insensitive to a rounding-level perturbation of the estimate (sensitivity probe), exact eigenbases stay fixed while the (lmax/lmin)^k rounding amplification is below tolerance. ~700 calls quick / ~13k thorough, n=1..64, float32/float64. Sampled.",
    "Trusted: float64 torch.linalg.qr/eigh as reference; the sensitivity probe (a perturbed float64 run) decides which clusters are comparable, so ill-conditioned clusters are counted vacuous rather than judged.",
    "DESIGN.md 3 C12",
)

CHECKS["C14"] = (
    "exploration",
    "runtime monitoring: the three copies of the assignment / buffer-splitting code called directly (and live distributors on simulated ranks), judged by a tie-agnostic LPT-consistency checker, brute-force optimum and byte-level buffer geometry",
    "Direct family: all multisets of <=5 (quick) / <=7 (thorough) sizes from {1,63,64,65,128,500} x group sizes 1..4 (exhaustive, ties everywhere) plus random sequences up to 200 blocks x group sizes 1..16, each copy: exactly one in-group owner per block, determinism across repeated / interleaved calls, LPT-consistency (some least-loaded rank at every step, any tie rule), spread <= largest block, max load <= 4/3 OPT against brute force (<=9 blocks, <=4 ranks), 64-byte alignment and size >= block. Buffer family: real _construct_distributed_buffers on generated block shapes x communication dtypes: every typed view inside its owner's segment, large enough, contiguous, pairwise disjoint, local list = owner's sub-list. Live family: DDP / HSDP / HybridShard optimizers on simulated ranks (incl. communication dtype wider than the parameter dtype): per group every block's optimizer state has non-empty local tensors on exactly one rank, and the live distributor's buffer views satisfy the same geometry. Exhaustive below the stated bound, sampled above.",
    "Trusted: vf/blocking.py (LPT-consistency search, brute-force optimum). Direct calls use a stub carrying the group size under the attribute names the copies read today; if they move, the family turns inconclusive rather than alarming.",
    "DESIGN.md 3 C14",
)

CHECKS["C05"] = (
    "exploration",
    "runtime monitoring: the real Distributor built through its public constructor on generated shapes; storage-level tiling/aliasing monitors on blocks, gradient blocks and update_params; differential run of a blocked tensor against its blocks as separate parameters",
    "Structural: every block shares the parameter's storage, index sets (from offset/strides/shape) partition the parameter exactly, blocks are boxes of some legally merged row-major view with that view's strides, no block dim exceeds the limit, gradient blocks address the same index sets of p.grad, update_params adds each block's update to exactly that block's elements and nothing else (parameter embedded in a larger buffer). Thorough enumerates all 781 shapes (order 0..4, dims 1..5) x 7 limits x merge on/off; quick a 12% sample plus all shapes of order<=2. Invariance: ~50/480 generated float64 configurations (Shampoo/SOAP, grafting kinds, momentum, decay, absent gradients) stepped side by side with the pre-split twin, per-step block deltas within 1e-6 relative. Exhaustive below the stated bound for the structural part; sampled for invariance.",
    "Trusted: index-set computation from torch strides; the candidate enumeration of legal merges (vf/blocking.merge_is_legal). Greedy/maximal merging is not demanded.",
    "DESIGN.md 3 C05",
)

CHECKS["C01"] = (
    "exploration",
    "runtime monitoring: real optimizer.step() on generated configurations and histories under a step-locked float64 reference model of the documented recurrences (per block, per quantity, after every step)",
    "Each run (320 quick / 5000 thorough; 6-25 steps; ~20k monitored block-steps quick) draws pairwise-distinct hyperparameters over the whole constructor domain (grafting kinds, beta1/beta3, decay modes, momentum/Nesterov/dampening, bias correction, root overrides int/list, exponent multiplier, ignored dims, blocking/merging, frequency/start, 1-3 groups with overrides, three dtype pairings, four root solvers, SOAP eigh/QR), absent gradients and scheduler edits. Before each step the monitor snapshots params/grads/param_groups/state; after it, it recomputes from the OBSERVED pre-state: group step counter, factor matrices, grafting accumulator, filtered gradient, inverse roots (spectral oracle within the C10 bound at refresh steps, bitwise unchanged otherwise), eigenbases (C03 checks), corrected eigenvalues, momentum buffer and the parameter (W_old - lr*P_ref with P_ref from the stored roots); blocks without gradient must be bitwise unchanged. Tolerances follow a first-order error model with magnitude tracking (DESIGN 1.4); max observed deviation/tolerance is reported. Sampled.",
    "Trusted: vf/ref.py (transcription of the documented algorithm), the float32-scalar tolerance floor, block geometry read from a public-constructor Distributor (tiling itself is C05). Runs leaving the dtype's range, LAPACK returning NaN for a finite matrix, and ill-conditioned-by-construction factors raising PreconditionerValueError are ended without verdict and counted.",
    "DESIGN.md 2 E3, 3 C01",
)
CHECKS["C04"] = (
    "exploration",
    "runtime monitoring: bit-level shadow snapshots of absent parameters/state and the block-keyed step-locked reference under exhaustive and random gradient-presence histories on equal-shaped parameters",
    "Exhaustive family: all 3-step mask sequences over k=2 (quick, 6 configurations) and k=2,3 (thorough) equal-shaped parameters followed by all-present steps; random family: toggling / never-present / all-absent / bursts / random walks over 6-20 steps, optionally blocked parameters and two groups. Every absent parameter block and each of its state tensors is compared bit-for-bit (SHA-256 of raw bytes) before/after the step; the group counter must stay put on all-absent steps; every present block must follow from its own previous state (reference keyed by (parameter, block key), distinct gradient scales per parameter make cross-wiring visible). A `ddp` family runs the same byte shadow for absent parameters and their state on every rank of simulated DDP worlds (the DDP distributor keeps its own masked lists). Exhaustive below the stated bound, sampled above.",
    "Trusted: as C01; DDP worlds as C06.",
    "DESIGN.md 3 C04",
)

CHECKS["C02"] = (
    "exploration",
    "runtime monitoring: differential execution of Shampoo next to torch.optim.{SGD,Adagrad,RMSprop,Adam,AdamW} on shared gradient streams; per-block norm/direction monitors after the warm-up",
    "300 (quick) / 4500 (thorough) twin runs over the five targets, float32/float64, 1-4 parameters of order 0..4 blocked/merged in all ways, warm-up 1..30 steps, coupled/decoupled decay, momentum/Nesterov, presence patterns allowed by the property. (a) After every warm-up step each parameter must agree with the torch.optim twin within 64*2^-24*(|q|+cumulative displacement)*kappa elementwise (max observed ratio ~0.06). (b) From start_preconditioning_step on (runs with momentum=0, decay=0, where the twin's update is exactly the grafted direction for the shared gradient history) every block's ||delta W|| must equal the norm of the twin's update on the same index set, and delta W must be anti-parallel to the Shampoo direction computed from the stored inverse roots. Sampled.",
    "Trusted: torch.optim as the definition of the grafted methods; block index sets from a public-constructor Distributor; the resolution limit u*|W| of observing an update as W_new-W_old is added to the tolerance.",
    "DESIGN.md 3 C02",
)
CHECKS["C03"] = (
    "exploration",
    "runtime monitoring: SOAP runs under basis-validity monitors on the stored state at every refresh and the step-locked rotated-Adam reference",
    "240 (quick) / 4000 (thorough) SOAP runs (eigh and QR with 1-5 iterations, all dtype pairings incl. bfloat16 parameters with float32 factors, beta2<1 and =1, ignored-dims subsets, grafting on/off, low-rank/sparse gradients, absent gradients). At every refresh: basis orthonormal within C*n*u; eigh (and QR from a zero basis): Q^T L Q diagonal for the factor accumulated in that step; QR: backward-stability check of a single iteration (Q_new^T L Q_old row-permuted upper triangular) and, for several iterations, gap-aware cluster-projector match with the float64 k-fold iteration for some k<=max_iterations on clusters that are insensitive to rounding noise; bases bitwise unchanged off-schedule and for blocks without gradient. Every step: corrected eigenvalues = beta2*old + (1-beta2)*rot(G)^2 in the refreshed basis, direction = rot^-1(rot(g)/(v/bc+eps)^(1/root)), identity rotation while the basis is zero, ignored modes untouched, then the full parameter update as in C01. Sampled.",
    "Trusted: vf/ref.py, vf/matref.py (float64 QR/eigh); exactly-diagonal factors may yield the identity basis (documented fast path).",
    "DESIGN.md 3 C03",
)

CHECKS["C13"] = (
    "fault_enumeration",
    "runtime monitoring with fault injection: scripted failures / NaN / Inf delivered at the matrix-routine names the preconditioner lists call, NaN/Inf gradients; shadow failure counter per block identity, bitwise root snapshots, byte snapshots of parameters",
    "Bounded-exhaustive family: two blocks, every one of the 2^6 fail/succeed scripts of one block x 2^6 presence scripts of the other over 6 refreshes, for N in 0..3, Shampoo and SOAP, both listing orders (thorough: all 4096 pairs per combination = 65k runs; quick: 4k sampled runs); random family: 2-4 blocks, per-factor failures of several exception classes, bursts, blocks entering/leaving, frequency 1..3; poison family: NaN/Inf gradients at and off refresh steps, routine returning NaN/Inf, root overflowing its (float16) storage dtype. After every step: expected raise iff an active block's shadow count exceeds N (and not the NaN/Inf class), a failed factor keeps its previous matrix bit-for-bit, a successful one holds exactly what its computation returned, NaN/Inf at a refresh raises PreconditionerValueError with the group's parameters byte-identical and all stored roots/bases finite. Counters of delivered faults make a run with an unreached wrapper inconclusive.",
    "Trusted: the wrapper identifies (block, factor) by the (pairwise distinct) matrix size, not by call order; refresh steps computed by the harness from the documented schedule.",
    "DESIGN.md 3 C13, 2 E6",
)

CHECKS["C09"] = (
    "fault_enumeration",
    "runtime monitoring: every stop step of every generated run is a crash point: save -> torch.save/load -> fresh optimizer -> load -> continue, compared bit-for-bit (SHA-256 of raw bytes) with the uninterrupted run; negative loads enumerated per flat key and per sub-tree",
    "96 (quick) / 1500 (thorough) generated runs (Shampoo/SOAP, all grafting types, momentum, filtering, 1-3 param groups, blocked parameters, blocks without Kronecker factors, absent gradients, scheduler edits), T in 4..12; the crash-point space of each run (k = 0..T) is enumerated completely (~850 resumes quick). After each resumed step every parameter and every tensor found by an independent traversal of optimizer.state must be bit-identical to the uninterrupted run; per parameter the number of flat keys must equal the number of reachable tensors (uniqueness / completeness). Negative loads: every single flat key and every sub-tree (block / module / attribute) deleted in turn, an unknown parameter key, an extra and a renamed param group - each must raise (~5k defective loads quick). A `ddp` family repeats save -> torch.save/load -> fresh optimizer -> load -> continue on 2-4 simulated DDP ranks with DTensor state (all ranks stop at the same steps), compared bit for bit per rank.",
    "Trusted: torch.save/torch.load; the harness's traversal of dict/tuple/OptimizerModule graphs. torch.distributed.checkpoint resharding is not exercised.",
    "DESIGN.md 3 C09",
)

CHECKS["C18"] = (
    "exploration",
    "runtime monitoring: differential execution of a torch.compile'd optimizer (backends eager / aot_eager, static / dynamic / auto shapes) against an uncompiled twin on identical inputs, compared after every step",
    "60 (quick) / 400 (thorough) generated configurations covering the branches of the group step (decay modes, filtering with beta3, grafting types, momentum/Nesterov/dampening, bias correction, Shampoo / SOAP eigh+QR, blocked parameters, the state-aliasing class), 8-12 steps across the warm-up switch with >=2 refreshes and 1-5 gradient-presence changes that force recompilation. After each step all parameters and every state tensor (independent traversal) are compared: bitwise first (observed: ~99% of steps), else within 1e-6 of the step's update. torch._dynamo counters give the number of compiled graphs per case (0 => trivial); configurations torch's own compiler refuses (aliasing limit under dynamic shapes) are counted and skipped. Sampled.",
    "Trusted: torch.compile backends 'eager'/'aot_eager' preserve eager numerics (the property's premise). inductor / CUDA graphs cannot run here.",
    "DESIGN.md 3 C18",
)

CHECKS["C06"] = (
    "exploration",
    "runtime monitoring on simulated ranks: the real DDP distributor/optimizer run on 1-8 rank threads (torch threaded process group, real DeviceMesh/DTensor) under a collective ledger with logical deadlock detector, replica bit-equality, serial twin, and an exact rounding model of the communicated quantity",
    "260 configurations x 2 interleavings quick (3000 x 4 thorough, plus 12 real gloo multi-process runs): world sizes 1..8, every divisor group size, communicate_params on/off, DEFAULT/FP32/FP16/BF16, float32/float64/bfloat16 parameters, generated optimizer configurations, presence patterns that starve ranks; absent parameters and their state are byte-shadowed on every rank. Per step: all replicas bit-identical; exact communication => bit-identical to a free-running serial twin; reduced precision => each owner's update (captured at the public update_params argument) equals the re-synchronised serial twin's update bit for bit, every block has exactly one owner per group, and every parameter equals W_old + cast(u) (updates) or cast(W_old+u) (parameters) exactly. Ledger: every rank's sequence of new_group calls and, per group, of (op, bytes, dtype, iteration) must be identical; a logical detector (no timing) reports a stuck rank as soon as no rank can progress while a collective is incomplete. Evidence counts collectives logged and distinct arrival-order signatures. One open known finding (0-D 16-bit parameter communicated in its own dtype, KNOWN_FINDINGS.txt) is classified by a predicate on the case and reported as KNOWN-FINDING. Sampled schedules.",
    "Trusted: torch's threaded process group as a faithful stand-in for collectives semantics (cross-checked by gloo runs in the thorough tier); per-thread get_device_mesh cache models per-process state; sleeps are injected only at the collective / group-creation wrappers.",
    "DESIGN.md 2 E5, 3 C06",
)

CHECKS["C07"] = (
    "exploration",
    "runtime monitoring on simulated ranks: real FSDP / HSDP distributors inside the optimizer, shards and metadata built by the harness, compared after every step with a serial twin run on the sub-tensors given by an independent slab DP; replica, ledger and deadlock monitors for HSDP",
    "200 (quick) / 2500 x 2 interleavings (thorough) sharded worlds: original shapes of order 1..4, flat-parameter sharding over 1..8 shard ranks (mid-row cuts, empty shards) or arbitrary cuts, HSDP on R x S meshes with every divisor num_trainers_per_group, all communication settings, generated optimizer configurations, absent gradients. Per rank and step every recovered sub-tensor of every shard must equal the twin parameter (bitwise; with reduced-precision communication within 4 u_comm of the communicated quantity against a re-synchronised twin); shards without gradient must stay bit-identical; HSDP replicas bit-identical; collective ledger identical across ranks; logical deadlock detector. Because the slabs partition each shard and shards partition each parameter, equality with the twin implies every element is updated exactly once. Thorough tier adds 10 runs of REAL torch FSDP / HYBRID_SHARD (use_orig_params=True) on gloo processes: the flat range each rank really holds is decoded from position codes written into the parameters before wrapping and compared with compile_fsdp_parameter_metadata, then the optimizer runs end-to-end next to the twin. Sampled.",
    "Trusted: vf/blocking.one_min_decomposition (validated exhaustively against both recovery copies in C15), threaded process group, harness-built FSDPParameterMetadata. Real FSDP wrapping on GPU is not reachable.",
    "DESIGN.md 3 C07",
)
CHECKS["C08"] = (
    "exploration",
    "runtime monitoring on simulated ranks: real FullyShard / HybridShard distributors on dim-0 sharded DTensor parameters, compared after every step with a serial twin over the non-empty local tensors; replica, ledger and deadlock monitors for HybridShard",
    "200 (quick) / 2500 x 2 (thorough) worlds: 1-D meshes of 1..8 ranks and R x S meshes, torch.chunk row distribution (ranks with zero rows, uneven rows), parameters with empty local shards anywhere in the group, absent DTensor gradients, num_trainers_per_group dividing R, all communication settings, generated optimizer configurations. Per rank and step p.to_local() must equal the twin parameter (bitwise; reduced precision within 4 u_comm of the communicated quantity against a re-synchronised twin), locally empty or gradient-less parameters must not change, HybridShard replicas bit-identical, ledger identical across ranks, no stuck rank. Sampled.",
    "Trusted: DTensor.from_local construction as a stand-in for fully_shard's parameters; threaded process group.",
    "DESIGN.md 3 C08",
)

# Input classes / monitors added after the mutation rounds (appended to the level text by gen_manifest.py)
ADDENDA = {
    "C01": "Also: per-group overrides of grafting / preconditioner config / root override / blocking / preconditioner dtype; steps taken with step(closure) (gradients exist only after the closure ran); histories that continue on a freshly constructed optimizer which loaded the distributed state dict mid-run; 40-90 step histories.",
    "C02": "Also: two-group twins in which the first group has no gradient on some steps; a vanishing Shampoo direction for a non-zero gradient is judged (it must still move the block by the grafted norm).",
    "C03": "Also: stopping-rule monitor for the QR method (the stored basis must equal the iterate at an iteration where 'relative change <= tolerance or budget exhausted' allows stopping; float64, noise-probe and working-dtype replays widen the admissible set); histories that continue on a checkpoint-restored optimizer.",
    "C04": "Also: a sharded family (HSDP / HybridShard worlds on simulated ranks, shared with C07/C08): shards without a gradient stay bit-identical and present ones follow their own serial twin on every rank.",
    "C05": "Also: for SOAP a mismatch is excused only when both twins hold the same factor matrices but different (equally valid) eigenbases.",
    "C06": "Also: several param groups per optimizer, bfloat16 and mixed bfloat16/float32 parameter groups, exact opmath rounding model for mixed dtypes, one fixed case for the listed known finding. Scheduler edits of param_groups (lr, weight decay, momentum) between steps on every rank and in the serial twin; gradient-presence pattern 'rotate' (constant number of parameters with a gradient, moving set).",
    "C07": "Also: mixed bfloat16/float32 parameter groups (forced in every 10th case), communication-dtype quantisation fingerprint of the applied update / parameter, thorough tier: real torch FSDP/HSDP wrapping on gloo processes (metadata compiled by the repo from the real flat parameters). Scheduler edits of param_groups between steps on every rank and in the twin; 'rotate' presence pattern.",
    "C08": "Also: mixed-dtype groups and the communication-dtype fingerprint as in C07; thorough tier: parameters produced by the real fully_shard (FSDP2) on gloo processes. Scheduler edits and the 'rotate' presence pattern as in C07.",
    "C09": "Also: negative loads per key, per sub-tree and into differently grouped optimizers; DDP (DTensor) state on simulated ranks. Chained resumes (resume at k1, save again from the resumed optimizer at k2: that second checkpoint must equal the uninterrupted run's checkpoint at k2 key for key, bit for bit, and resume the trajectory); the documented torch.distributed.checkpoint flow (on-disk format, in-place load into the fresh optimizer's own state dict whose tensors alias its state, then load_distributed_state_dict of that dict) for two stop steps per run (quick) / all (thorough); the state right after loading is compared with the uninterrupted run's state at k.",
    "C10": "Also: inside the region where rounding cannot excuse non-convergence (cond*n*u*100 < tolerance, budget >= 100 iterations) the accuracy bound is judged whatever flag is reported; epsilon dominating A, the zero matrix, structured inputs (unflagged diagonal, permuted / block diagonal, c*I), a non-default exponent multiplier in the config for the fast-vs-general comparison. Beyond 1/u, where the rounding allowance makes the residual bound vacuous, the higher-order guard is judged by probes: violation only if the float64 evaluation of the returned X's residual and four working-dtype evaluation orders all exceed 0.15.",
    "C11": "Also: roots below 1, rejection cases with both values of is_diagonal, structured inputs.",
    "C12": "Also: stopping-rule monitor as in C03, estimates with exact zeros (identity / permutation / block-orthogonal), zero rows, forced fixed-point instances, NaN-safe comparisons.",
    "C13": "Also: injected failures of any Exception type (plain Exception subclass, MemoryError, AssertionError, KeyError), per-group tolerance overrides, float16 storage overflow poison mode.",
    "C14": "Also: sizes around 2^31 / 2^40 in the direct family; live family: the rank holding a block's state must be the rank whose gather-buffer segment holds the block's view, and the live owners must be an LPT-consistent assignment of the aligned sizes.",
    "C15": "Also: strided (non-contiguous) shards and 0-D shards.",
    "C16": "Also: DAG-shaped object graphs with shared containers / tensors, store_non_tensors on and off.",
    "C17": "Also: neighbours of the beta3 sentinel (nextafter(-1, +-inf)) and denormal epsilon values.",
    "C18": "Also: gradient tensors reused across steps, gradients compared after the step, groups holding only 2-D blocks, state-aliasing configuration class in every 5th case. 0-3 scheduler edits of param_groups (lr tensor; weight decay / momentum python scalars the graph was specialised on) between steps on both twins.",
}
