# id -> (category, technique, level text, level note, design ref)
CHECKS["C15"] = (
    "exploration",
    "runtime monitoring: direct calls of both copies of the recovery routine, judged by an independent slab-grammar + DP-minimum oracle and storage-pointer checks",
    "Every (shape,start,end) in the small-shape space is executed against both copies (exhaustive in the thorough tier: dims<=3 order<=4, dims<=4 order<=3, dims<=2 order 5) plus random large shapes; each result is checked to be views of the shard, an in-order partition, valid slabs and of minimum count (DP). Held-on-what-was-explored, exhaustive below the stated bound.",
    "Trusted: vf/blocking.py DP (forward relaxation over slab edges), torch storage_offset/data_ptr semantics. Shapes beyond numel 20000 / order 5 are not explored.",
    "DESIGN.md 3 C15",
)
