#!/bin/bash
# tools/matrix.sh [names...] : run every seeded mutant (seeded/<name>/patch.diff, seeded_reverts/*.diff) against the check of its
# property (quick tier) and print one line per mutant; results are appended to seeded/MATRIX.tsv
cd "$(dirname "$0")/.."
names=("$@")
if [ ${#names[@]} -eq 0 ]; then names=($(ls seeded | grep -v MATRIX)); fi
for n in "${names[@]}"; do
  if [ -f "seeded/$n/patch.diff" ]; then
    prop=$(python3 -c "import json;print(json.load(open('seeded/$n/meta.json'))['property'])")
    extra=$(python3 -c "import json;print(' '.join(json.load(open('seeded/$n/meta.json')).get('also_checks',[])))")
    res=$(tools/mutant.sh "seeded/$n/patch.diff" $prop $extra 2>&1 | grep '^== ' | tr '\n' ' ')
    echo -e "$n\t$prop\t$res"
    echo -e "$(date +%F_%T)\t$n\t$prop\t$res" >> seeded/MATRIX.tsv
  fi
done
