#!/bin/bash
# tools/mutant.sh <patch.diff> <check id> [<check id> ...]   (env TIER=quick|thorough, default quick)
# Applies a seeded defect to a scratch worktree of /repo (never to /repo itself), runs the named checks against it
# with evidence/replays redirected to a temp dir, prints each check's exit code, removes the worktree.
set -u
patch="$(realpath "$1")"; shift
here="$(cd "$(dirname "$0")/.." && pwd)"
wt="$(mktemp -d /tmp/vf_mut_XXXXXX)"; rmdir "$wt"
git -C /repo worktree add -q --detach "$wt" HEAD || exit 3
trap 'git -C /repo worktree remove --force "$wt" >/dev/null 2>&1; rm -rf "$out"' EXIT
out="$(mktemp -d /tmp/vf_mutout_XXXXXX)"
if ! git -C "$wt" apply "$patch"; then echo "PATCH DOES NOT APPLY"; exit 3; fi
for id in "$@"; do
  VERIF_REPO="$wt" VERIF_EVIDENCE_DIR="$out/evidence" VERIF_REPLAY_DIR="$out/replays" "$here/check" "$id" "${TIER:-quick}" > "$out/$id.log" 2>&1
  rc=$?
  echo "== $id rc=$rc  $(grep -c '^VIOLATION' "$out/$id.log") violation line(s)"
  grep -A1 '^VIOLATION' "$out/$id.log" | grep 'what:' | sort | uniq -c | sort -rn | head -${SHOW:-4}
  grep -E '^(INCONCLUSIVE|KNOWN-FINDING|OK)' "$out/$id.log" | head -3
done
