#!/usr/bin/env python3
"""Mechanical mutation scan (self-validation of the monitors, complements the sub-agent rounds of DESIGN 9.4).

  python3 tools/mutscan.py enumerate                 -> prints the number of mutation points per file
  python3 tools/mutscan.py run <n> <seed> [file ...] -> samples n mutation points, and for each, in ONE scratch worktree of
        /repo HEAD under /tmp (never /repo itself; removed at the end):
          1. applies the single-token / single-statement mutation,
          2. runs the pinned test suite; a mutant that loses any BASELINE stable-pass test is 'killed_by_tests' (not interesting),
          3. otherwise runs the quick tier of the checks mapped to the file until one exits 1 (caught) - evidence / replays are
             redirected to a temp dir, /verif/evidence is not touched,
          4. appends one line to seeded/MUTSCAN.tsv: id, file, line, operator, before -> after, tests verdict, check results.
Survivors of both (tests and checks) are either equivalent mutants or gaps: they are triaged by hand (DESIGN 9.7)."""
import ast, json, os, random, subprocess, sys, tempfile, time, xml.etree.ElementTree as ET

HERE = os.path.dirname(os.path.dirname(os.path.abspath(__file__)))
REPO = "/repo"
FILES = {
    "matrix_functions.py": ["C10", "C11", "C12", "C01", "C03", "C13"],
    "optimizer_modules.py": ["C16", "C09"],
    "distributed_shampoo/distributed_shampoo.py": ["C01", "C17", "C02", "C03", "C04", "C09", "C13", "C18", "C06"],
    "distributed_shampoo/shampoo_types.py": ["C17", "C01"],
    "distributed_shampoo/utils/shampoo_preconditioner_list.py": ["C01", "C03", "C02", "C04", "C13", "C09", "C18"],
    "distributed_shampoo/utils/shampoo_distributor.py": ["C05", "C01", "C04"],
    "distributed_shampoo/utils/shampoo_utils.py": ["C05", "C01", "C04"],
    "distributed_shampoo/utils/shampoo_block_info.py": ["C06", "C07", "C08", "C09"],
    "distributed_shampoo/utils/shampoo_checkpoint_utils.py": ["C16", "C09"],
    "distributed_shampoo/utils/shampoo_ddp_distributor.py": ["C06", "C14", "C04", "C09"],
    "distributed_shampoo/utils/shampoo_dist_utils.py": ["C06", "C07", "C08"],
    "distributed_shampoo/utils/shampoo_fsdp_distributor.py": ["C07", "C15"],
    "distributed_shampoo/utils/shampoo_hsdp_distributor.py": ["C07", "C15", "C14"],
    "distributed_shampoo/utils/shampoo_fully_shard_distributor.py": ["C08"],
    "distributed_shampoo/utils/shampoo_hybrid_shard_distributor.py": ["C08", "C14"],
    "distributed_shampoo/utils/shampoo_quantization.py": ["C01", "C09"],
}
CMP = {ast.Lt: "<=", ast.LtE: "<", ast.Gt: ">=", ast.GtE: ">", ast.Eq: "!=", ast.NotEq: "==", ast.Is: "is not", ast.IsNot: "is"}
CMP_SRC = {ast.Lt: "<", ast.LtE: "<=", ast.Gt: ">", ast.GtE: ">=", ast.Eq: "==", ast.NotEq: "!=", ast.Is: "is", ast.IsNot: "is not"}
BIN = {ast.Add: "-", ast.Sub: "+", ast.Mult: "/", ast.Div: "*", ast.FloorDiv: "/", ast.Mod: "//"}
BIN_SRC = {ast.Add: "+", ast.Sub: "-", ast.Mult: "*", ast.Div: "/", ast.FloorDiv: "//", ast.Mod: "%"}


def seg(lines, node):
    if node.lineno != node.end_lineno:
        return None
    return lines[node.lineno - 1][node.col_offset : node.end_col_offset]


def points(path):
    """[(lineno, col, end_col, operator, before, after)] single-line textual replacements"""
    src = open(path).read()
    lines = src.split("\n")
    tree = ast.parse(src)
    out = []
    doc_lines = set()
    for n in ast.walk(tree):
        if isinstance(n, (ast.FunctionDef, ast.ClassDef, ast.Module)) and n.body and isinstance(n.body[0], ast.Expr) and isinstance(getattr(n.body[0], "value", None), ast.Constant) and isinstance(n.body[0].value.value, str):
            doc_lines.update(range(n.body[0].lineno, n.body[0].end_lineno + 1))
    parents = {}
    for n in ast.walk(tree):
        for c in ast.iter_child_nodes(n):
            parents[c] = n

    def in_annotation_or_logging(n):
        while n in parents:
            p = parents[n]
            if isinstance(p, (ast.AnnAssign,)) and getattr(p, "annotation", None) is n:
                return True
            if isinstance(p, ast.arg):
                return True
            if isinstance(p, ast.Call) and isinstance(p.func, ast.Attribute) and isinstance(p.func.value, ast.Name) and p.func.value.id == "logger":
                return True
            if isinstance(p, (ast.Raise, ast.Assert)) and not (isinstance(p, ast.Assert) and p.test is n):
                if isinstance(p, ast.Raise):
                    return True
            if isinstance(p, ast.JoinedStr):
                return True
            n = p
        return False

    for n in ast.walk(tree):
        if not hasattr(n, "lineno") or n.lineno in doc_lines or in_annotation_or_logging(n):
            continue
        if isinstance(n, ast.Compare) and len(n.ops) == 1 and type(n.ops[0]) in CMP:
            l, r = n.left, n.comparators[0]
            if l.end_lineno == r.lineno:
                gap = lines[l.end_lineno - 1][l.end_col_offset : r.col_offset]
                op = CMP_SRC[type(n.ops[0])]
                if gap.strip() == op:
                    k = l.end_col_offset + gap.index(op)
                    out.append((l.end_lineno, k, k + len(op), "cmp", op, CMP[type(n.ops[0])]))
        elif isinstance(n, ast.BinOp) and type(n.op) in BIN:
            l, r = n.left, n.right
            if isinstance(l, ast.Constant) and isinstance(l.value, str):
                continue
            if l.end_lineno == r.lineno:
                gap = lines[l.end_lineno - 1][l.end_col_offset : r.col_offset]
                op = BIN_SRC[type(n.op)]
                if gap.strip(" ()") == op and gap.count(op) == 1:
                    k = l.end_col_offset + gap.index(op)
                    out.append((l.end_lineno, k, k + len(op), "binop", op, BIN[type(n.op)]))
        elif isinstance(n, ast.BoolOp) and len(n.values) == 2:
            l, r = n.values
            if l.end_lineno == r.lineno:
                gap = lines[l.end_lineno - 1][l.end_col_offset : r.col_offset]
                op = "and" if isinstance(n.op, ast.And) else "or"
                if gap.strip(" ()") == op:
                    k = l.end_col_offset + gap.index(op)
                    out.append((l.end_lineno, k, k + len(op), "boolop", op, "or" if op == "and" else "and"))
        elif isinstance(n, ast.UnaryOp) and isinstance(n.op, ast.Not) and n.lineno == n.end_lineno:
            s = seg(lines, n)
            if s and s.startswith("not "):
                out.append((n.lineno, n.col_offset, n.col_offset + 4, "not", "not ", ""))
        elif isinstance(n, ast.UnaryOp) and isinstance(n.op, ast.USub) and n.lineno == n.end_lineno and not isinstance(n.operand, ast.Constant):
            out.append((n.lineno, n.col_offset, n.col_offset + 1, "neg", "-", "+"))
        elif isinstance(n, ast.Constant) and n.lineno == n.end_lineno:
            s = seg(lines, n)
            if isinstance(n.value, bool):
                out.append((n.lineno, n.col_offset, n.end_col_offset, "bool", s, "False" if n.value else "True"))
            elif isinstance(n.value, int) and not isinstance(n.value, bool) and s and s.isdigit():
                out.append((n.lineno, n.col_offset, n.end_col_offset, "int", s, str(n.value + 1)))
                if n.value > 0:
                    out.append((n.lineno, n.col_offset, n.end_col_offset, "int", s, str(n.value - 1)))
            elif isinstance(n.value, float) and s:
                out.append((n.lineno, n.col_offset, n.end_col_offset, "float", s, "1.0" if n.value == 0.0 else ("0.0" if n.value == 1.0 else repr(n.value * 2))))
        elif isinstance(n, ast.Expr) and isinstance(n.value, ast.Call) and n.lineno == n.end_lineno:
            # a whole call statement dropped (an in-place update, a copy_, a barrier...)
            s = seg(lines, n)
            f = n.value.func
            name = f.attr if isinstance(f, ast.Attribute) else getattr(f, "id", "")
            if s and not name.startswith(("warning", "info", "debug", "error")) and not (isinstance(f, ast.Attribute) and isinstance(f.value, ast.Name) and f.value.id == "logger"):
                out.append((n.lineno, n.col_offset, n.end_col_offset, "dropcall", s, "pass"))
        elif isinstance(n, ast.Expr) and isinstance(n.value, ast.Call) and n.end_lineno - n.lineno <= 12:
            f = n.value.func
            name = f.attr if isinstance(f, ast.Attribute) else getattr(f, "id", "")
            if not (isinstance(f, ast.Attribute) and isinstance(f.value, ast.Name) and f.value.id == "logger"):
                out.append((n.lineno, n.col_offset, -n.end_lineno, "dropcall_ml", f"{name}(...) [{n.end_lineno - n.lineno + 1} lines]", "pass"))
        elif isinstance(n, ast.Attribute) and n.attr in ("clone", "detach", "contiguous") and isinstance(parents.get(n), ast.Call) and not parents[n].args and n.lineno == n.end_lineno and parents[n].lineno == parents[n].end_lineno:
            c = parents[n]
            vs = n.value
            if vs.end_lineno == n.lineno:
                out.append((n.lineno, vs.end_col_offset, c.end_col_offset, "dropmethod", lines[n.lineno - 1][vs.end_col_offset : c.end_col_offset], ""))
    return sorted(set(out))


def apply(path, pt):
    lines = open(path).read().split("\n")
    ln, a, b, op, before, after = pt
    if op == "dropcall_ml":
        end = -b
        indent = lines[ln - 1][:a]
        lines[ln - 1 : end] = [indent + "pass"]
    else:
        L = lines[ln - 1]
        assert L[a:b] == before, (L[a:b], before)
        lines[ln - 1] = L[:a] + after + L[b:]
    open(path, "w").write("\n".join(lines))


def sh(cmd, timeout, env=None, cwd=None):
    try:
        p = subprocess.run(cmd, shell=True, capture_output=True, text=True, timeout=timeout, env=env, cwd=cwd)
        return p.returncode, p.stdout + p.stderr
    except subprocess.TimeoutExpired:
        return 124, "TIMEOUT"


def main():
    if sys.argv[1] == "enumerate":
        tot = 0
        for f in FILES:
            n = len(points(os.path.join(REPO, f)))
            tot += n
            print(f"{n:5d} {f}")
        print(tot, "total")
        return
    n, seed = int(sys.argv[2]), int(sys.argv[3])
    files = sys.argv[4:] or list(FILES)
    allp = [(f, pt) for f in files for pt in points(os.path.join(REPO, f))]
    rnd = random.Random(seed)
    rnd.shuffle(allp)
    skip = int(os.environ.get("MS_SKIP", "0"))  # continue a previous run of the same seed / file list
    sample = allp[skip : skip + n]
    base = json.load(open("/root/.vp/BASELINE.json"))
    stable = set(base["stable_pass"])
    wt = tempfile.mkdtemp(prefix="vf_ms_", dir="/tmp")
    os.rmdir(wt)
    subprocess.check_call(["git", "-C", REPO, "worktree", "add", "-q", "--detach", wt, "HEAD"])
    out = tempfile.mkdtemp(prefix="vf_msout_", dir="/tmp")
    log = os.path.join(HERE, "seeded", "MUTSCAN.tsv")
    try:
        for k, (f, pt) in enumerate(sample):
            mid = f"ms{seed}_{k + skip}"
            path = os.path.join(wt, f)
            subprocess.check_call(["git", "-C", wt, "checkout", "-q", "--", "."])
            apply(path, pt)
            rc, _ = sh(f"/venv/bin/python -c \"import ast,sys; ast.parse(open('{path}').read())\"", 60)
            if rc != 0:
                continue
            xml = os.path.join(out, "junit.xml")
            if os.path.exists(xml):
                os.unlink(xml)
            env = dict(os.environ, OMP_NUM_THREADS="2", PYTHONPATH=wt)
            t0 = time.time()
            rc, o = sh(f"/venv/bin/python -m pytest -q -p no:cacheprovider --timeout=300 --continue-on-collection-errors --junitxml={xml}", 900, env=env, cwd=wt)
            tests = "timeout"
            if rc != 124 and os.path.exists(xml):
                passed = set()
                for tc in ET.parse(xml).iter("testcase"):
                    if not any(c.tag in ("failure", "error", "skipped") for c in tc):
                        passed.add(tc.get("classname") + "::" + tc.get("name"))
                miss = len(stable - passed)
                tests = "survives_tests" if miss == 0 else f"killed_by_tests({miss})"
            res = []
            if tests == "survives_tests":
                for cid in FILES[f]:
                    env2 = dict(os.environ, VERIF_REPO=wt, VERIF_EVIDENCE_DIR=os.path.join(out, "ev"), VERIF_REPLAY_DIR=os.path.join(out, "rp"))
                    rc, o = sh(f"{HERE}/check {cid} quick", 2400, env=env2)
                    what = ""
                    if rc == 1:
                        w = [l.strip() for l in o.split("\n") if l.strip().startswith("what:")]
                        what = (w[0][:160] if w else "")
                    res.append(f"{cid}:rc={rc}" + (f" [{what}]" if what else ""))
                    if rc == 1:
                        break
            line = "\t".join([time.strftime("%F_%T"), mid, f, str(pt[0]), pt[3], f"{pt[4]} -> {pt[5]}"[:120], tests, " ".join(res)])
            print(line, flush=True)
            open(log, "a").write(line + "\n")
    finally:
        subprocess.call(["git", "-C", REPO, "worktree", "remove", "--force", wt])
        subprocess.call(["rm", "-rf", out])


if __name__ == "__main__":
    main()
