#!/usr/bin/env python3
"""Summarise seeded/MUTSCAN.tsv (latest line per mutation point): per file, how many single-token / dropped-call mutants were
scanned, killed by the pinned tests, caught by a quick tier, or survived both; lists the survivors."""
import collections, os
here = os.path.dirname(os.path.dirname(os.path.abspath(__file__)))
last = {}
for line in open(os.path.join(here, "seeded", "MUTSCAN.tsv")):
    f = line.rstrip("\n").split("\t")
    if len(f) >= 7:
        last[(f[2], f[3], f[4], f[5])] = f
per = collections.defaultdict(lambda: [0, 0, 0, 0, 0])
surv = []
for (file, ln, op, ch), f in sorted(last.items()):
    p = per[file]
    p[0] += 1
    res = f[7] if len(f) > 7 else ""
    if f[6].startswith("killed"):
        p[1] += 1
    elif f[6] == "survives_tests":
        if "rc=1" in res:
            p[2] += 1
        elif "rc=2" in res and "rc=0" not in res.replace("rc=2", ""):
            p[4] += 1
        else:
            p[3] += 1
            surv.append((file, int(ln), op, ch, res))
    else:
        p[4] += 1
print("| file | scanned | killed by the pinned tests | survive the tests, caught by a quick tier | survive both | other (timeout) |")
print("|------|---------|----------------------------|------------------------------------------|--------------|-----------------|")
tot = [0] * 5
for file, p in sorted(per.items()):
    print(f"| {file} | {p[0]} | {p[1]} | {p[2]} | {p[3]} | {p[4]} |")
    tot = [a + b for a, b in zip(tot, p)]
print(f"| **total** | {tot[0]} | {tot[1]} | {tot[2]} | {tot[3]} | {tot[4]} |")
print()
for s in sorted(surv):
    print(f"{s[0]}:{s[1]}\t{s[2]}\t{s[3]}")
