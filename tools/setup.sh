#!/bin/bash
# Nothing to build or install: sanity-check the interpreter and the facilities the monitors rely on.
set -e
cd "$(dirname "$0")/.."
/venv/bin/python - <<'PY'
import sys, torch
assert sys.version_info >= (3, 12), sys.version
assert hasattr(sys, "monitoring")
from torch.testing._internal.distributed.multi_threaded_pg import _install_threaded_pg  # noqa
print("setup ok: python", sys.version.split()[0], "torch", torch.__version__)
PY
chmod +x check
