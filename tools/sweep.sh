#!/bin/bash
# tools/sweep.sh <tier> <seeds...> : run every registered check on the unchanged tree for the given seeds, evidence redirected to a temp dir
tier="$1"; shift
out="$(mktemp -d /tmp/vf_sweep_XXXXXX)"
for seed in "$@"; do
  for id in ${SWEEP_IDS:-C01 C02 C03 C04 C05 C06 C07 C08 C09 C10 C11 C12 C13 C14 C15 C16 C17 C18}; do
    s=$(date +%s)
    VERIF_SEED=$seed VERIF_EVIDENCE_DIR="$out/ev" VERIF_REPLAY_DIR="$out/replays_$seed" ./check $id $tier > "$out/$id.$seed.log" 2>&1
    rc=$?
    echo "seed=$seed $id $tier rc=$rc $(( $(date +%s) - s ))s $(grep -E '^(VIOLATION|INCONCLUSIVE)' "$out/$id.$seed.log" | head -2 | cut -c1-200)"
    if [ $rc -ne 0 ]; then grep -A1 '^VIOLATION' "$out/$id.$seed.log" | grep what | sort | uniq -c | sort -rn | head -5 | cut -c1-300; mkdir -p sweep_failures; cp -r "$out/replays_$seed/$id" "sweep_failures/${id}_${tier}_${seed}" 2>/dev/null; fi
  done
done
rm -rf "$out"
