#!/bin/bash
# tools/validate_seeded.sh <source dir with patch.diff demo.py meta.json> <name>
# Confirms in a scratch worktree of /repo HEAD: patch applies; demo exits 0 unchanged and non-zero patched;
# every BASELINE stable-pass test still passes with the patch. On success copies to /verif/seeded/<name>/.
set -u
src="$(realpath "$1")"; name="$2"
here="$(cd "$(dirname "$0")/.." && pwd)"
wt="$(mktemp -d /tmp/vf_val_XXXXXX)"; rmdir "$wt"
git -C /repo worktree add -q --detach "$wt" HEAD || exit 3
trap 'git -C /repo worktree remove --force "$wt" >/dev/null 2>&1; rm -f /tmp/vf_val_$$.xml' EXIT
cd "$wt"
run_demo() { (cd "$wt" && PYTHONPATH="$wt" OMP_NUM_THREADS=2 timeout 900 /venv/bin/python "$src/demo.py" >/dev/null 2>&1); echo $?; }
d0=$(run_demo)
if ! git apply "$src/patch.diff"; then echo "$name: PATCH DOES NOT APPLY"; exit 3; fi
d1=$(run_demo)
OMP_NUM_THREADS=2 PYTHONPATH="$wt" /venv/bin/python -m pytest -q -p no:cacheprovider --timeout=900 --continue-on-collection-errors --junitxml=/tmp/vf_val_$$.xml >/dev/null 2>&1
miss=$(python3 - <<PY
import json, xml.etree.ElementTree as ET
b=json.load(open('/root/.vp/BASELINE.json'))
passed=set()
for tc in ET.parse('/tmp/vf_val_$$.xml').iter('testcase'):
    if not any(c.tag in('failure','error','skipped') for c in tc): passed.add(tc.get('classname')+'::'+tc.get('name'))
print(len(set(b['stable_pass'])-passed))
PY
)
echo "$name: demo_unchanged=$d0 demo_mutated=$d1 stable_pass_missing=$miss"
if [ "$d0" = "0" ] && [ "$d1" != "0" ] && [ "$miss" = "0" ]; then
  mkdir -p "$here/seeded/$name"
  cp "$src/patch.diff" "$src/demo.py" "$here/seeded/$name/"
  python3 - "$src/meta.json" "$here/seeded/$name/meta.json" "$d0" "$d1" <<'PY'
import json,sys
m=json.load(open(sys.argv[1]))
m["confirmed"]={"patch_applies_to_repo_head":True,"demo_exit_unchanged":int(sys.argv[3]),"demo_exit_mutated":int(sys.argv[4]),"baseline_stable_pass_missing":0,"how":"tools/validate_seeded.sh in a scratch worktree of /repo HEAD (removed afterwards)"}
json.dump(m,open(sys.argv[2],"w"),indent=1)
PY
  echo "$name: KEPT"
else
  echo "$name: REJECTED"
fi
