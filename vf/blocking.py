"""E4: independent reference models for blocking, shard recovery (slab grammar + DP) and LPT assignment.

Nothing here calls into the repository."""
from __future__ import annotations

import math
from functools import lru_cache
from itertools import product

INF = 10**9


# ------------------------------------------------------------------------------------------------
# C15: slab grammar and minimum decomposition
# ------------------------------------------------------------------------------------------------
def strides_of(shape):
    return [math.prod(shape[d + 1 :]) for d in range(len(shape))]


def slab_dims(shape, x, y):
    """All d for which flat range [x,y) of a row-major tensor of `shape` is a slab k x shape[d+1:]
    lying inside a single index of the leading dims 0..d-1.  Returns list of (d, piece_shape)."""
    n = len(shape)
    if y <= x:
        return []
    if n == 0:
        return [(0, (1,))] if (x, y) == (0, 1) else []
    out = []
    st = strides_of(shape)
    for d in range(n):
        s = st[d]
        blk = s * shape[d]
        if s == 0 or blk == 0:
            continue
        if x % s == 0 and y % s == 0 and x // blk == (y - 1) // blk:
            out.append((d, ((y - x) // s,) + tuple(shape[d + 1 :])))
    return out


def min_slabs_from(shape, a, b_max):
    """best[y-a] = minimum number of slabs that partition [a,y) for every a<=y<=b_max (INF if impossible)."""
    n = len(shape)
    best = [INF] * (b_max - a + 1)
    best[0] = 0
    if n == 0:
        if a == 0 and b_max >= 1:
            best[1] = 1
        return best
    st = strides_of(shape)
    for x in range(a, b_max):
        bx = best[x - a]
        if bx >= INF:
            continue
        for d in range(n):
            s = st[d]
            if s == 0 or x % s:
                continue
            blk = s * shape[d]
            end = min(b_max, (x // blk + 1) * blk)
            y = x + s
            while y <= end:
                if bx + 1 < best[y - a]:
                    best[y - a] = bx + 1
                y += s
    return best


def one_min_decomposition(shape, a, b):
    """Some minimal decomposition [(x,y,shape_with_smallest_d)], used only for witnesses / twins."""
    n = len(shape)
    if b <= a:
        return []
    best = [INF] * (b - a + 1)
    prev = [None] * (b - a + 1)
    best[0] = 0
    st = strides_of(shape) if n else []
    for x in range(a, b):
        bx = best[x - a]
        if bx >= INF:
            continue
        if n == 0:
            if (x, b) == (0, 1):
                best[1] = 1
                prev[1] = (0, (1,))
            continue
        for d in range(n):
            s = st[d]
            if s == 0 or x % s:
                continue
            blk = s * shape[d]
            end = min(b, (x // blk + 1) * blk)
            y = x + s
            while y <= end:
                if bx + 1 < best[y - a]:
                    best[y - a] = bx + 1
                    prev[y - a] = (x - a, ((y - x) // s,) + tuple(shape[d + 1 :]))
                y += s
    out = []
    j = b - a
    while j > 0:
        i, shp = prev[j]
        out.append((a + i, a + j, shp))
        j = i
    return out[::-1]


# ------------------------------------------------------------------------------------------------
# C05: merge legality and block boxes
# ------------------------------------------------------------------------------------------------
def merge_is_legal(shape, merged, limit):
    """Is `merged` a legal result of merging small dims of `shape` under `limit`?

    Legal: drop size-1 dims (all-ones -> (1,)); merged dims are products of consecutive runs of the squeezed
    shape; every fused run (more than one original dim) has product <= limit; numel preserved."""
    sq = [d for d in shape if d != 1] or [1]
    merged = list(merged)
    if math.prod(sq) != math.prod(merged):
        return False
    if any(m == 1 for m in merged) and merged != [1]:
        return False
    i = 0
    for m in merged:
        acc, cnt = 1, 0
        while i < len(sq) and acc < m:
            acc *= sq[i]
            i += 1
            cnt += 1
        if cnt == 0:
            # m == 1 only for the all-ones case
            if m != 1:
                return False
            if i < len(sq) and sq[i] == 1:
                i += 1
            continue
        if acc != m:
            return False
        if cnt > 1 and m > limit:
            return False
    return i == len(sq)


def greedy_merge(shape, limit):
    """The documented greedy left-to-right merge (reference for 'merging only fuses adjacent dims whose
    product stays within the limit and drops size-1 dims')."""
    sq = [d for d in shape if d != 1] or [1]
    out = [sq[0]]
    for d in sq[1:]:
        if out[-1] * d <= limit:
            out[-1] *= d
        else:
            out.append(d)
    return tuple(out)


def block_boxes(shape, limit):
    """Row-major list of index boxes ((lo,hi) per dim) splitting `shape` into chunks of at most `limit`."""
    if len(shape) == 0:
        return [()]
    per_dim = [[(lo, min(lo + limit, n)) for lo in range(0, n, limit)] or [(0, 0)] for n in shape]
    return list(product(*per_dim))


# ------------------------------------------------------------------------------------------------
# C14: LPT consistency (tie-agnostic), brute-force optimum
# ------------------------------------------------------------------------------------------------
def lpt_consistent(sizes, ranks, n_ranks):
    """Could `ranks` be produced by: process blocks in non-increasing size order (any order among equal sizes),
    give each block to SOME currently least-loaded rank?  Returns (ok, explanation)."""
    if len(sizes) != len(ranks):
        return False, "length mismatch"
    if any(not (0 <= r < n_ranks) for r in ranks):
        return False, "owner outside the group"
    loads = [0] * n_ranks
    classes = {}
    for s, r in zip(sizes, ranks):
        classes.setdefault(s, []).append(r)
    for s in sorted(classes, reverse=True):
        counts = [0] * n_ranks
        for r in classes[s]:
            counts[r] += 1
        if s == 0:
            continue  # zero-sized blocks never change loads: any owner is consistent
        # Within one size class with equal sizes s: repeatedly give s to a currently minimal rank.
        # Search over multiset of remaining counts (memoised on (loads tuple, counts tuple)).
        ok = _class_search(tuple(loads), tuple(counts), s)
        if not ok:
            return False, f"size class {s}: owners {classes[s]} not reachable from loads {loads} by least-loaded-first"
        for r in range(n_ranks):
            loads[r] += counts[r] * s
    return True, ""


def _class_search(loads, counts, s):
    seen = set()
    stack = [(loads, counts)]
    while stack:
        ld, ct = stack.pop()
        if not any(ct):
            return True
        if (ld, ct) in seen:
            continue
        seen.add((ld, ct))
        m = min(ld)
        for r, c in enumerate(ct):
            if c and ld[r] == m:
                nl = list(ld)
                nl[r] += s
                nc = list(ct)
                nc[r] -= 1
                stack.append((tuple(nl), tuple(nc)))
    return False


def brute_force_opt(sizes, n_ranks):
    """minimum over all assignments of the maximum load (small instances only)"""
    sizes = sorted(sizes, reverse=True)
    best = [sum(sizes)]
    loads = [0] * n_ranks

    def rec(i):
        if i == len(sizes):
            best[0] = min(best[0], max(loads))
            return
        seen = set()
        for r in range(n_ranks):
            if loads[r] in seen:
                continue
            seen.add(loads[r])
            if loads[r] + sizes[i] >= best[0]:
                continue
            loads[r] += sizes[i]
            rec(i + 1)
            loads[r] -= sizes[i]

    rec(0)
    return best[0]
