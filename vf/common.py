"""Shared helpers for all monitors: verdict exceptions, tolerance model (DESIGN 1.4), byte hashes,
repo import guard, deterministic RNG helpers."""
from __future__ import annotations

import hashlib
import logging
import math
import os
import random
import sys
import traceback

REPO = os.path.realpath(os.environ.get("VERIF_REPO", "/repo"))
HOME = os.path.realpath(os.environ.get("VERIF_HOME", os.path.dirname(os.path.dirname(os.path.abspath(__file__)))))


class Violation(Exception):
    """A monitor fired on an in-domain case.  `witness` is JSON-able."""

    def __init__(self, what: str, **witness):
        super().__init__(what)
        self.what = what
        self.witness = witness


class OutOfDomain(Exception):
    """The generated case left the property's numeric domain (e.g. the documented direction overflows the dtype); the case
    ends without a verdict and is counted."""


class Inconclusive(Exception):
    """The deciding monitor could not attach / was never reached (harness-side problem)."""


def setup_torch():
    import torch

    torch.set_num_threads(1)
    try:
        torch.set_num_interop_threads(1)
    except RuntimeError:
        pass
    logging.disable(logging.CRITICAL)
    import warnings

    warnings.filterwarnings("ignore")
    return torch


def import_repo():
    """Import the code under test and make sure it comes from the tree we are asked to judge."""
    setup_torch()
    import distributed_shampoo  # noqa
    import matrix_functions  # noqa

    for m in (distributed_shampoo, matrix_functions):
        f = os.path.realpath(m.__file__)
        if not f.startswith(REPO + os.sep):
            raise Inconclusive(f"{m.__name__} imported from {f}, expected under {REPO}")
    return distributed_shampoo


def U(dtype) -> float:
    """unit round-off of a torch dtype"""
    import torch

    return {torch.float64: 2.0**-53, torch.float32: 2.0**-24, torch.bfloat16: 2.0**-8, torch.float16: 2.0**-11}[dtype]


def u_eff(dtype) -> float:
    return max(U(dtype), 2.0**-24)


def sha(t) -> str:
    """SHA-256 of the raw bytes (plus dtype/shape) of a tensor (DTensor -> local)."""
    import torch

    if hasattr(t, "to_local"):
        t = t.to_local()
    t = t.detach().contiguous()
    if t.dtype == torch.bfloat16:
        raw = t.view(torch.int16).numpy().tobytes()
    elif t.dtype == torch.bool:
        raw = t.to(torch.uint8).numpy().tobytes()
    else:
        raw = t.numpy().tobytes()
    h = hashlib.sha256()
    h.update(str((t.dtype, tuple(t.shape))).encode())
    h.update(raw)
    return h.hexdigest()


def beq(a, b) -> bool:
    """bitwise equality of two tensors including NaN payloads / signed zeros"""
    return a.dtype == b.dtype and a.shape == b.shape and sha(a) == sha(b)


def ratio_close(obs, ref, scale=None, *, C: float, u: float, kappa: float = 1.0, extra_abs=None) -> float:
    """max over elements of |obs-ref| / (C*u*kappa*(scale + rms(scale)) + extra_abs); <=1 means inside.

    `scale` is an elementwise magnitude bound of the terms that were added to form ref (defaults to |ref|):
    guards against cancellation (DESIGN 1.4)."""
    import torch

    # values below the storage dtype's normal range are quantised to multiples of its smallest subnormal (tiny * eps)
    underflow = 8.0 * float(torch.finfo(obs.dtype).tiny) * float(torch.finfo(obs.dtype).eps) if obs.dtype.is_floating_point else 0.0
    obs = obs.detach().to(torch.float64)
    ref = ref.detach().to(torch.float64)
    if obs.shape != ref.shape:
        return float("inf")
    if obs.numel() == 0:
        return 0.0
    if not bool(torch.isfinite(obs).all()):
        return float("inf")
    scale = ref.abs() if scale is None else torch.maximum(scale.detach().to(torch.float64).abs(), ref.abs())
    s = scale.square().mean().sqrt()
    tol = C * u * kappa * (scale + s)
    if extra_abs is not None:
        tol = tol + extra_abs
    tol = (tol + underflow).clamp_min(1e-300)
    return float(((obs - ref).abs() / tol).max())


def summarize_tensor(t, n=6):
    import torch

    t = t.detach().to(torch.float64).flatten()
    return {"numel": int(t.numel()), "head": [float(x) for x in t[:n]], "norm": float(t.norm()) if t.numel() else 0.0}


def rng_for(seed: int, *keys) -> random.Random:
    h = hashlib.sha256(repr((seed,) + keys).encode()).digest()
    return random.Random(int.from_bytes(h[:8], "big"))


def tgen(seed: int, *keys):
    import torch

    h = hashlib.sha256(repr((seed,) + keys).encode()).digest()
    return torch.Generator().manual_seed(int.from_bytes(h[:7], "big"))


def origin_of_exception(exc: BaseException) -> str:
    """'repo' if the innermost repo-or-harness frame of the traceback is in the code under test,
    'verif' if it is in the harness, 'other' if neither appears."""
    tb = exc.__traceback__
    frames = traceback.extract_tb(tb)
    for fr in reversed(frames):
        f = os.path.realpath(fr.filename)
        if f.startswith(REPO + os.sep):
            return "repo"
        if f.startswith(HOME + os.sep):
            return "verif"
    return "other"


def short_tb(exc: BaseException, limit=8) -> str:
    return "".join(traceback.format_exception(type(exc), exc, exc.__traceback__, limit=-limit))[-3000:]


def log2ceil(x):
    return math.ceil(math.log2(x))


def eprint(*a):
    print(*a, file=sys.stderr, flush=True)


class KernelObserver:
    """Watches the third-party boundary torch.linalg.eigh: records when LAPACK silently returns non-finite output for a
    finite input (observed with MKL ssyevd on rank-deficient float32 matrices when run single-threaded).  Behaviour is
    not changed; the record lets a check tell 'the repository reacted to a broken kernel result as documented'
    (PreconditionerValueError) from 'the repository produced non-finite values itself'."""

    def __init__(self, measure_orth=False):
        self.nonfinite_from_finite = 0
        self.calls = 0
        # optional: loss of orthogonality ||V^T V - I||_max of the returned eigenvectors (observed: MKL dsyevd returns 2e-11
        # instead of ~1e-15 for a float64 matrix with two 48-fold eigenvalue clusters); `last_orth_defect` is that of the
        # latest call, to be added to an accuracy bound as the third-party kernel's own measured error
        self.measure_orth = measure_orth
        self.last_orth_defect = 0.0
        self.max_orth_defect = 0.0

    def __enter__(self):
        import torch

        self._torch = torch
        self._orig = torch.linalg.eigh
        obs = self

        def eigh(A, *a, **k):
            out = obs._orig(A, *a, **k)
            obs.calls += 1
            try:
                if bool(torch.isfinite(A).all()) and not (bool(torch.isfinite(out[0]).all()) and bool(torch.isfinite(out[1]).all())):
                    obs.nonfinite_from_finite += 1
                if obs.measure_orth and out[1].dim() == 2 and bool(torch.isfinite(out[1]).all()):
                    V = out[1].detach().to(torch.float64)
                    obs.last_orth_defect = float((V.T @ V - torch.eye(V.shape[0], dtype=torch.float64)).abs().max())
                    obs.max_orth_defect = max(obs.max_orth_defect, obs.last_orth_defect)
            except Exception:  # noqa
                pass
            return out

        torch.linalg.eigh = eigh
        return self

    def __exit__(self, *exc):
        self._torch.linalg.eigh = self._orig
        return False
