"""Shared pieces of the distributed checks (C06-C08, C14 live, C09/C04 DDP families)."""
from __future__ import annotations

import threading

_cap = threading.local()
_patched = False

COMM = {"DEFAULT": "float32", "FP32": "float32", "FP16": "float16", "BF16": "bfloat16"}


def install_update_capture():
    """Wrap the public update_params of every distributor class so that a harness thread can record the search directions
    (= -lr * P per locally masked block) it is handed, keyed by block identity (param index in group, block key)."""
    global _patched
    if _patched:
        return
    import importlib

    for modname, clsname in (("shampoo_distributor", "Distributor"), ("shampoo_ddp_distributor", "DDPDistributor"), ("shampoo_hsdp_distributor", "HSDPDistributor"), ("shampoo_hybrid_shard_distributor", "HybridShardDistributor"), ("shampoo_fsdp_distributor", "FSDPDistributor"), ("shampoo_fully_shard_distributor", "FullyShardDistributor")):
        try:
            cls = getattr(importlib.import_module(f"distributed_shampoo.utils.{modname}"), clsname)
        except (ImportError, AttributeError):
            continue
        if "update_params" not in cls.__dict__:
            continue
        orig = cls.__dict__["update_params"]

        def make(orig):
            def update_params(self, masked_blocked_search_directions):
                sink = getattr(_cap, "current", None)
                if sink is not None:
                    try:
                        infos = [bi for bi, s in zip(self.local_block_info_list, self.local_grad_selector) if s]
                        rec = {}
                        for bi, u in zip(infos, masked_blocked_search_directions):
                            rec[bi.composable_block_ids] = u.detach().clone()
                        sink.append(rec)
                    except Exception as e:  # noqa  (observer must never change behaviour)
                        sink.append({"__error__": repr(e)})
                return orig(self, masked_blocked_search_directions)

            return update_params

        cls.update_params = make(orig)
    _patched = True


class capture:
    """with capture() as rec: opt.step()  -> rec is the list of {block id: update} dicts, one per update_params call made by
    the calling thread inside the block (one per param group that stepped)"""

    def __enter__(self):
        install_update_capture()
        self.rec = []
        self.prev = getattr(_cap, "current", None)
        _cap.current = self.rec
        return self.rec

    def __exit__(self, *exc):
        _cap.current = self.prev
        return False


def ddp_config(ds, comm, G, communicate_params):
    return ds.DDPShampooConfig(communication_dtype=getattr(ds.CommunicationDType, comm), num_trainers_per_group=G, communicate_params=communicate_params)


def divisors(n):
    return [d for d in range(1, n + 1) if n % d == 0]


def collect_placement(opt, params):
    """{(param index, block key): [local numel of each state tensor]} on the calling rank (public optimizer.state surface)"""
    placement = {}
    for j, p in enumerate(params):
        st = opt.state.get(p, {})
        for k, v in st.items():
            if isinstance(k, str) and "block_" in k and isinstance(v, dict):
                sizes = []
                for name in ("adagrad", "momentum", "filtered_grad"):
                    if name in v:
                        t_ = v[name]
                        sizes.append(int((t_.to_local() if hasattr(t_, "to_local") else t_).numel()))
                sh = v.get("shampoo")
                if sh is not None:
                    for attr in ("factor_matrices", "inv_factor_matrices", "factor_matrices_eigenvectors"):
                        for t_ in getattr(sh, attr, ()):
                            sizes.append(int((t_.to_local() if hasattr(t_, "to_local") else t_).numel()))
                    ce = getattr(sh, "corrected_eigenvalues", None)
                    if ce is not None:
                        sizes.append(int((ce.to_local() if hasattr(ce, "to_local") else ce).numel()))
                placement[(j, k)] = sizes
    return placement


def find_distributors(opt):
    """the live distributor objects of an optimizer, one per param group, found by walking the optimizer's own attributes
    (any container nesting, any attribute / key names) for instances of a class called *Distributor"""
    found, seen = [], set()

    def walk(o, depth):
        if id(o) in seen or depth > 4:
            return
        seen.add(id(o))
        if type(o).__name__.endswith("Distributor"):
            found.append(o)
            return
        if isinstance(o, dict):
            for v in o.values():
                walk(v, depth + 1)
        elif isinstance(o, (list, tuple)):
            for v in o:
                walk(v, depth + 1)

    for k, v in vars(opt).items():
        if k in ("state", "param_groups", "defaults"):
            continue
        walk(v, 0)
    return found


def live_buffer_geometry(opt, params=None):
    """byte-level geometry of the live distributor's communication buffers (private attribute names; None if they moved)"""
    out = []
    try:
        for d in find_distributors(opt):
            g = d._global_dist_buffer
            base = g.data_ptr()
            total = g.numel() * g.element_size()
            views = [(v.data_ptr() - base, v.numel() * v.element_size(), v.untyped_storage().data_ptr() == g.untyped_storage().data_ptr()) for v in d._global_dist_blocked_buffers]
            loc = d._local_dist_buffer
            # which (parameter, block ordinal) each global block is: blocks are views of their parameter, in parameter order
            ids, seen = [], {}
            plist = list(params) if params is not None else (list(d._param_group["params"]) if hasattr(d, "_param_group") else [])
            for b in d._global_blocked_params:
                j = next((i for i, p in enumerate(plist) if (p.to_local() if hasattr(p, "to_local") else p).untyped_storage().data_ptr() == b.untyped_storage().data_ptr()), None)
                ids.append((j, seen.get(j, 0)))
                seen[j] = seen.get(j, 0) + 1
            out.append({"total": total, "views": views, "local": (loc.data_ptr() - base, loc.numel() * loc.element_size()), "block_bytes": [b.numel() for b in d._global_blocked_params], "block_ids": ids})
    except (AttributeError, KeyError):
        return None
    return out
