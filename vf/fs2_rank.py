"""One real gloo process using REAL torch `fully_shard` (FSDP2) to build the dim-0 sharded DTensor parameters (thorough tier of C08):
python -m vf.fs2_rank <setup.json> <rank> <dir>

fully_shard's forward needs CUDA streams, so gradients are set by hand as DTensors with the parameters' own mesh/placements; what is
real here is the parameter layout produced by fully_shard (1-D mesh -> FullyShard, 2-D mesh -> HybridShard) and the gloo collectives."""
from __future__ import annotations

import json
import os
import sys


def main(argv):
    setup_path, rank, d = argv[0], int(argv[1]), argv[2]
    S = json.load(open(setup_path))
    from .common import beq, import_repo, tgen

    ds = import_repo()
    import torch
    import torch.distributed as dist
    from torch.distributed._composable.fsdp import fully_shard
    from torch.distributed.device_mesh import init_device_mesh
    from torch.distributed.tensor import DTensor

    from distributed_shampoo.shampoo_types import HybridShardShampooConfig

    from . import gen as G

    dist.init_process_group("gloo", init_method=f"file://{d}/store", rank=rank, world_size=S["W"])
    out = {"rank": rank, "violations": [], "steps_bitwise": 0, "steps_tolerance": 0, "layout_checked": 0}
    shapes = [tuple(s) for s in S["shapes"]]
    dt = torch.float32
    init_full = [p.detach() for p in G.make_params(torch, [list(s) for s in shapes], dt, tgen(*S["seed"], "init"), scale=S["grad_scale"])]

    class M(torch.nn.Module):
        def __init__(self):
            super().__init__()
            self.ps = torch.nn.ParameterList([torch.nn.Parameter(x.clone()) for x in init_full])

    model = M()
    if S["mode"] == "hybrid":
        mesh = init_device_mesh("cpu", (S["R"], S["S"]), mesh_dim_names=("replicate", "shard"))
        srank, Sn = mesh.get_local_rank(1), S["S"]
    else:
        mesh = init_device_mesh("cpu", (S["W"],))
        srank, Sn = rank, S["W"]
    fully_shard(model, mesh=mesh)
    params = list(model.parameters())

    def loc(t_):
        ch = list(torch.chunk(t_, Sn, dim=0))
        return ch[srank].clone() if srank < len(ch) else t_.new_zeros((0,) + tuple(t_.shape[1:]))

    # layout produced by the real fully_shard == torch.chunk semantics used by the simulated-rank harness
    for i, p in enumerate(params):
        out["layout_checked"] += 1
        if not isinstance(p, DTensor) or not beq(p.to_local().detach(), loc(init_full[i])):
            out["violations"].append(f"harness: fully_shard layout of parameter {i} differs from torch.chunk semantics: local shape {tuple(p.to_local().shape)}")
    cfg = S["cfg"]
    dcfg = ds.FullyShardShampooConfig() if S["mode"] == "fully" else HybridShardShampooConfig(device_mesh=mesh, num_trainers_per_group=S.get("G_arg", S["G"]), communication_dtype=getattr(ds.CommunicationDType, S["comm"]), communicate_params=S["communicate_params"])
    if not out["violations"]:
        opt = G.build_optimizer(ds, torch, cfg, params, distributed_config=dcfg)
        twin_items = [(i, torch.nn.Parameter(loc(f).clone())) for i, f in enumerate(init_full) if loc(f).numel() > 0]
        twin = G.build_optimizer(ds, torch, cfg, [q for _, q in twin_items]) if twin_items else None
        for t in range(S["T"]):
            for i, p in enumerate(params):
                g = G.grad_for(torch, tgen(*S["seed"], "g", t, i), list(shapes[i]), dt, "dense", S["grad_scale"] * (1 + i)) if S["presence"][t][i] else None
                p.grad = None if g is None else DTensor.from_local(loc(g), p.device_mesh, p.placements, run_check=False, shape=p.shape, stride=p.stride())
            for i, q in twin_items:
                g = G.grad_for(torch, tgen(*S["seed"], "g", t, i), list(shapes[i]), dt, "dense", S["grad_scale"] * (1 + i)) if S["presence"][t][i] else None
                q.grad = None if g is None else loc(g)
            opt.step()
            if twin is not None:
                twin.step()
            bit = True
            for i, q in twin_items:
                mine, want = params[i].to_local().detach(), q.detach()
                if beq(mine, want):
                    continue
                bit = False
                if not torch.allclose(mine, want, rtol=1e-5, atol=1e-7 * S["grad_scale"]):
                    out["violations"].append(f"step {t + 1}: rank {rank}: local shard of parameter {i} differs from the serial optimizer on that local tensor (max abs diff {float((mine - want).abs().max()):.3g})")
            out["steps_bitwise" if bit else "steps_tolerance"] += 1
            if out["violations"]:
                break
        out["final"] = {str(i): [float(v) for v in p.to_local().detach().flatten()[:4]] for i, p in enumerate(params)}
    json.dump(out, open(os.path.join(d, f"result_{rank}.json"), "w"))
    dist.barrier()
    dist.destroy_process_group()
    return 0


if __name__ == "__main__":
    sys.exit(main(sys.argv[1:]))
