"""One real process of a gloo world running REAL torch FSDP (use_orig_params=True) with FSDP / HSDP Shampoo (thorough tier of C07):
python -m vf.fsdp_rank <setup.json> <rank> <dir>

The original parameters are filled with position codes before wrapping, so the harness can read off which flat range of every
parameter this rank really holds - independent of compile_fsdp_parameter_metadata and of FSDP's layout rules.  The rank then runs
the optimizer next to a serial twin over the sub-tensors given by the slab DP and reports everything to <dir>/result_<rank>.json."""
from __future__ import annotations

import json
import os
import sys


def main(argv):
    setup_path, rank, d = argv[0], int(argv[1]), argv[2]
    S = json.load(open(setup_path))
    from .common import beq, import_repo, tgen

    ds = import_repo()
    import torch
    import torch.distributed as dist
    from torch.distributed.fsdp import FullyShardedDataParallel as FSDP
    from torch.distributed.fsdp import ShardingStrategy

    from distributed_shampoo.utils.shampoo_fsdp_utils import compile_fsdp_parameter_metadata

    from . import gen as G
    from .blocking import one_min_decomposition

    W = S["W"]
    dist.init_process_group("gloo", init_method=f"file://{d}/store", rank=rank, world_size=W)
    out = {"rank": rank, "violations": [], "metadata_checked": 0, "steps_bitwise": 0, "steps_tolerance": 0, "sub_tensors": 0}
    shapes = [tuple(s) for s in S["shapes"]]
    dt = torch.float32
    CODE = 100000

    class M(torch.nn.Module):
        def __init__(self):
            super().__init__()
            self.ps = torch.nn.ParameterList([torch.nn.Parameter((torch.arange(int(torch.tensor(s).prod()) if len(s) else 1, dtype=dt) + CODE * (i + 1)).view(s)) for i, s in enumerate(shapes)])

        def forward(self, cs):
            return sum((p * c).sum() for p, c in zip(self.ps, cs))

    model = M()
    mesh = None
    if S["mode"] == "hsdp":
        from torch.distributed.device_mesh import init_device_mesh

        mesh = init_device_mesh("cpu", (S["R"], S["S"]), mesh_dim_names=("replicate", "shard"))
        fm = FSDP(model, use_orig_params=True, device_id=torch.device("cpu"), sharding_strategy=ShardingStrategy.HYBRID_SHARD, device_mesh=mesh)
    else:
        fm = FSDP(model, use_orig_params=True, device_id=torch.device("cpu"), sharding_strategy=ShardingStrategy.FULL_SHARD)
    md = compile_fsdp_parameter_metadata(fm)
    params = list(fm.parameters())
    # ---- (1) metadata vs what the rank really holds (decoded from the position codes)
    ranges = []
    for i, (p, s) in enumerate(zip(params, shapes)):
        numel = 1
        for x in s:
            numel *= x
        vals = p.detach().flatten()
        if vals.numel():
            a = int(round(float(vals[0]) - CODE * (i + 1)))
            b = int(round(float(vals[-1]) - CODE * (i + 1))) + 1
            if not torch.equal(vals, torch.arange(a, b, dtype=dt) + CODE * (i + 1)):
                out["violations"].append(f"harness: local shard of parameter {i} is not a contiguous range")
        else:
            a = b = 0
        ranges.append((a, b))
        m = md.get(p)
        out["metadata_checked"] += 1
        if m is None:
            out["violations"].append(f"compile_fsdp_parameter_metadata has no entry for parameter {i}")
            continue
        got = (tuple(m.shape), int(m.numel), int(m.start_idx), int(m.end_idx))
        want_empty = b <= a
        if tuple(m.shape) != s or int(m.numel) != numel or (not want_empty and (int(m.start_idx), int(m.end_idx)) != (a, b)) or (want_empty and int(m.end_idx) - int(m.start_idx) != 0):
            out["violations"].append(f"metadata of parameter {i} is {got}, the rank really holds flat range [{a},{b}) of shape {s} (numel {numel})")
    out["ranges"] = ranges
    # ---- (2) end-to-end: real FSDP + Shampoo vs serial twin on the recovered sub-tensors
    if not out["violations"]:
        cfg = S["cfg"]
        init_full = [p.detach() for p in G.make_params(torch, [list(s) for s in shapes], dt, tgen(*S["seed"], "init"), scale=S["grad_scale"])]
        with torch.no_grad():
            for i, p in enumerate(params):
                a, b = ranges[i]
                if b > a:
                    p.copy_(init_full[i].flatten()[a:b])
        if S["mode"] == "hsdp":
            dcfg = ds.HSDPShampooConfig(param_to_metadata=md, device_mesh=mesh, num_trainers_per_group=S.get("G_arg", S["G"]), communication_dtype=getattr(ds.CommunicationDType, S["comm"]), communicate_params=S["communicate_params"])
        else:
            dcfg = ds.FSDPShampooConfig(param_to_metadata=md)
        opt = G.build_optimizer(ds, torch, cfg, params, distributed_config=dcfg)
        twin_items = []
        for i, s in enumerate(shapes):
            a, b = ranges[i]
            for (x, y, shp) in one_min_decomposition(s, a, b):
                twin_items.append((i, x - a, y - a, shp, torch.nn.Parameter(init_full[i].flatten()[x:y].clone().view(shp))))
        twin = G.build_optimizer(ds, torch, cfg, [q for *_, q in twin_items]) if twin_items else None
        out["sub_tensors"] = len(twin_items)
        for t in range(S["T"]):
            cs = [G.grad_for(torch, tgen(*S["seed"], "g", t, j), list(s), dt, "dense", S["grad_scale"] * (1 + j)) for j, s in enumerate(shapes)]
            fm.zero_grad(set_to_none=True)
            loss = fm(cs)
            loss.backward()
            for (i, xa, ya, shp, q) in twin_items:
                want = cs[i].flatten()[ranges[i][0] + xa : ranges[i][0] + ya]
                g = params[i].grad
                if g is None or not torch.allclose(g.flatten()[xa:ya], want, rtol=1e-5, atol=0):
                    out["violations"].append(f"harness: step {t + 1}: FSDP gradient of parameter {i} is not the expected one")
                    continue
                # the twin receives exactly the gradient shard FSDP produced (its reduce-scatter average of identical gradients
                # is exact only for power-of-two world sizes): the optimizer under test and the twin see identical inputs
                q.grad = g.flatten()[xa:ya].clone().view(shp)
            opt.step()
            if twin is not None:
                twin.step()
            bit = True
            for (i, xa, ya, shp, q) in twin_items:
                mine = params[i].detach().flatten()[xa:ya]
                want = q.detach().flatten()
                if beq(mine, want):
                    continue
                bit = False
                if not torch.allclose(mine, want, rtol=1e-5, atol=1e-7 * S["grad_scale"]):
                    out["violations"].append(f"step {t + 1}: rank {rank}: shard of parameter {i} elements [{xa},{ya}) differs from the serial optimizer on that sub-tensor (max abs diff {float((mine - want).abs().max()):.3g})")
            out["steps_bitwise" if bit else "steps_tolerance"] += 1
            if out["violations"]:
                break
        out["final"] = [[float(v) for v in p.detach().flatten()[:3]] for p in params]
    json.dump(out, open(os.path.join(d, f"result_{rank}.json"), "w"))
    dist.barrier()
    dist.destroy_process_group()
    return 0


if __name__ == "__main__":
    sys.exit(main(sys.argv[1:]))
