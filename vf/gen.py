"""E2: seeded, explicit generators of optimizer configurations, parameter sets and histories (all JSON-able),
and the builders that turn them into repository objects."""
from __future__ import annotations

import math

DIMS = [1, 2, 3, 4, 5, 7, 8, 9]


# ------------------------------------------------------------------------------------------------ configs
def rand_precond(rnd, *, kind=None, allow_iterative=True, allow_ignored=True, order_max=4):
    kind = kind or rnd.choice(["shampoo", "shampoo", "soap"])
    pc = {"kind": kind, "ignored_dims": [], "num_tolerated": 3}
    if kind == "shampoo":
        r = rnd.random()
        if r < 0.6 or not allow_iterative:
            pc["solver"] = {"type": "eigen", "enhance_stability": rnd.random() < 0.3, "exponent_multiplier": rnd.choice([1.0, 1.0, 1.82, 0.5])}
        elif r < 0.8:
            pc["solver"] = {"type": "newton", "max_iterations": 100, "tolerance": rnd.choice([1e-6, 1e-8])}  # tolerance adapted to the factor dtype in rand_config
        else:
            pc["solver"] = {"type": "ho", "order": rnd.choice([2, 3, 4]), "rel_epsilon": 0.0, "max_iterations": 100, "tolerance": rnd.choice([1e-8, 1e-6])}
    else:
        if rnd.random() < 0.5:
            pc["solver"] = {"type": "eigh"}
        else:
            pc["solver"] = {"type": "qr", "max_iterations": rnd.choice([1, 1, 2, 3, 5]), "tolerance": rnd.choice([0.0, 1e-5, 1e-2, 0.3, 1.0])}
    if allow_ignored and rnd.random() < 0.25:
        k = rnd.randint(1, 2)
        pc["ignored_dims"] = sorted(rnd.sample(range(order_max), k))
    return pc


def rand_grafting(rnd, kind=None):
    kind = kind if kind is not None else rnd.choice(["none", "sgd", "adagrad", "rmsprop", "adam", "adam"])
    if kind == "none":
        return None
    g = {"type": kind}
    if kind in ("adagrad", "rmsprop", "adam"):
        g["epsilon"] = rnd.choice([1e-3, 1e-8, 1e-5])
    if kind in ("rmsprop", "adam"):
        g["beta2"] = rnd.choice([0.97, 0.985, 1.0])
    return g


def rand_config(rnd, *, grad_scale=1.0, precond_kind=None, grafting_kind=None, allow_iterative=True, allow_ignored=True, well_conditioned=True, dtype_pair=None, max_dim_choices=(1, 2, 3, 4, 5, 8, 1024)):
    freq = rnd.choice([1, 1, 2, 3, 5])
    start = rnd.choice([-1, freq, freq + 1, 2 * freq + 1, freq + 3])
    beta1 = rnd.choice([0.0, 0.8, 0.9])
    beta2 = rnd.choice([1.0, 0.95, 0.99, 0.999])
    beta3 = rnd.choice([-1.0, -1.0, 0.6, 0.7, 0.0])
    momentum = rnd.choice([0.0, 0.0, 0.5, 0.65])
    pc = rand_precond(rnd, kind=precond_kind, allow_iterative=allow_iterative, allow_ignored=allow_ignored)
    iterative = pc["solver"]["type"] in ("newton", "ho")
    # epsilon relative to the gradient scale so that cond(factor + eps I) is controlled
    dec = rnd.choice([1, 2, 3, 4]) if (well_conditioned or iterative) else rnd.choice([1, 3, 6, 9, 12])
    if iterative:
        dec = rnd.choice([1, 2])
    epsilon = (grad_scale**2) * 10.0 ** (-dec)
    if pc["ignored_dims"]:
        inv_root = 0
    else:
        inv_root = rnd.choice([0, 0, 0, 1, 2, 3, [2, 1, 3], [1, 3], [3, 2, 1, 4, 2]])
    if iterative and pc["solver"]["type"] == "newton" and pc["solver"].get("exponent_multiplier", 1.0) != 1.0:
        pass
    pd, fd = dtype_pair or rnd.choice([("float32", "float32"), ("float32", "float32"), ("float64", "float64"), ("float32", "float64"), ("float64", "float32"), ("bfloat16", "float32")])
    if pd == "bfloat16" and iterative:
        # Gram products of bfloat16 gradients are indefinite at the 2^-8 level; the iterative solvers have no spectrum shift
        # and would need epsilon above that level: outside the conditioning classes generated here
        pd = "float32"
    if pc["solver"]["type"] == "newton" and fd == "float32":
        pc["solver"]["tolerance"] = rnd.choice([1e-4, 3e-5])  # reachable in float32: the routine must report convergence
    wd = rnd.choice([0.0, 0.0, 0.03, 0.011])
    if iterative:
        wd = 0.0  # keeps the factor scale tied to the gradient scale (conditioning class) whatever the parameters do
    cfg = {
        "lr": rnd.choice([0.003, 0.013, 0.1, 1.0, 0.0]) if rnd.random() < 0.95 else 0.0,
        "betas": [beta1, beta2],
        "beta3": beta3,
        "epsilon": epsilon,
        "momentum": momentum,
        "dampening": rnd.choice([0.0, 0.2, 0.3]),
        "weight_decay": wd,
        "max_preconditioner_dim": rnd.choice(list(max_dim_choices)),
        "precondition_frequency": freq,
        "start_preconditioning_step": start,
        "inv_root_override": inv_root,
        "use_nesterov": rnd.random() < 0.4,
        "use_bias_correction": rnd.random() < 0.7,
        "use_decoupled_weight_decay": rnd.random() < 0.5,
        "grafting": rand_grafting(rnd, grafting_kind),
        "use_merge_dims": rnd.random() < 0.6,
        "preconditioner_dtype": fd,
        "param_dtype": pd,
        "precond": pc,
    }
    if rnd.random() < 0.08 and beta1 > 0:
        # class in which the search direction aliases optimizer state unless it is copied: no bias correction, beta3 == beta1 and an
        # identity preconditioner (SGD grafting in the warm-up / every dimension ignored)
        cfg["use_bias_correction"] = False
        cfg["beta3"] = -1.0
        if rnd.random() < 0.5 or not allow_ignored or cfg["inv_root_override"] != 0:
            cfg["grafting"] = {"type": "sgd"}
            if cfg["start_preconditioning_step"] in (-1, 1):
                cfg["start_preconditioning_step"] = freq + 3
        else:
            cfg["precond"]["ignored_dims"] = [0, 1, 2, 3]
            cfg["inv_root_override"] = 0
    return cfg


def stabilise_iterative(cfg, shapes, grad_scale):
    """Coupled Newton / higher-order solvers have no spectrum shift and a float32 error floor: keep cond(factor + eps I) <~ 1e3 for the
    whole run (exponential averaging so the factor stays bounded, small blocks, epsilon tied to the largest possible factor norm)."""
    if cfg["precond"]["solver"]["type"] not in ("newton", "ho"):
        return cfg
    cfg["betas"][1] = 0.95 if cfg["betas"][1] == 1.0 else cfg["betas"][1]
    cfg["max_preconditioner_dim"] = min(cfg["max_preconditioner_dim"], 8)
    blk = max([1] + [math.prod(min(d, cfg["max_preconditioner_dim"]) for d in s) for s in shapes])
    k = 1 if cfg["epsilon"] >= 0.05 * grad_scale**2 else 2
    cfg["epsilon"] = (grad_scale * len(shapes)) ** 2 * blk * 10.0 ** (-k)
    return cfg


def rand_shapes(rnd, n_params=None, max_order=4, max_numel=400, min_order=0):
    n_params = n_params or rnd.randint(1, 4)
    shapes = []
    for _ in range(n_params):
        while True:
            order = rnd.choice(range(min_order, max_order + 1))
            s = [rnd.choice(DIMS) for _ in range(order)]
            if math.prod(s) <= max_numel:
                shapes.append(s)
                break
    return shapes


def n_blocks(shape, limit, merge):
    from .blocking import greedy_merge

    m = greedy_merge(shape, limit) if merge else (tuple(shape) if shape else ())
    return math.prod(-(-d // limit) for d in m) if len(m) else 1


def rand_presence(rnd, n_params, T, kind=None):
    kind = kind or rnd.choice(["all", "all", "never_one", "toggle", "random", "all_absent_steps", "bursts", "rotate"])
    pres = [[True] * n_params for _ in range(T)]
    if kind == "never_one" and n_params > 1:
        j = rnd.randrange(n_params)
        for t in range(T):
            pres[t][j] = False
    elif kind == "toggle":
        j = rnd.randrange(n_params)
        for t in range(T):
            pres[t][j] = t % 2 == 0
    elif kind == "random":
        for t in range(T):
            for j in range(n_params):
                pres[t][j] = rnd.random() < 0.7
    elif kind == "all_absent_steps":
        for t in rnd.sample(range(T), max(1, T // 4)):
            pres[t] = [False] * n_params
    elif kind == "rotate" and n_params > 1:
        # the set of parameters with a gradient changes at every step while its SIZE stays constant (a refresh keyed on counts goes stale)
        k = rnd.randint(1, n_params - 1)
        off = rnd.randrange(n_params)
        for t in range(T):
            on = {(off + t + i) % n_params for i in range(k)}
            pres[t] = [j in on for j in range(n_params)]
    elif kind == "bursts":
        j = rnd.randrange(n_params)
        a = rnd.randrange(T)
        for t in range(a, min(T, a + rnd.randint(1, 4))):
            pres[t][j] = False
    return kind, pres


def rand_schedule(rnd, T, n_groups, cfg):
    """edits of lr / weight_decay / momentum in param_groups between steps: list of [before_step, group, key, value]"""
    edits = []
    for _ in range(rnd.choice([0, 0, 1, 2, 4])):
        key = rnd.choice(["lr", "lr", "weight_decay", "momentum"])
        if key == "momentum" and cfg["momentum"] == 0.0:
            continue
        if key == "weight_decay" and cfg["precond"]["solver"]["type"] in ("newton", "ho"):
            continue
        val = {"lr": rnd.choice([0.002, 0.05, 0.5, 0.0]), "weight_decay": rnd.choice([0.0, 0.02, 0.007]), "momentum": rnd.choice([0.4, 0.7])}[key]
        edits.append([rnd.randrange(1, T), rnd.randrange(n_groups), key, val])
    return sorted(edits)


def grad_for(torch, gen, shape, dtype, kind, scale):
    """one gradient tensor of the stream (float64 draw, cast to the parameter dtype)"""
    D = torch.float64
    if float(torch.rand((), generator=gen)) < 0.04:
        return torch.zeros(shape, dtype=dtype)  # a gradient that is present but identically zero
    if kind == "lowrank" and len(shape) >= 2 and math.prod(shape) > 1:
        vs = [torch.randn(s, generator=gen, dtype=D) for s in shape]
        g = vs[0]
        for v in vs[1:]:
            g = g.unsqueeze(-1) * v
    elif kind == "sparse":
        g = torch.randn(shape, generator=gen, dtype=D) * (torch.rand(shape, generator=gen, dtype=D) < 0.3)
    else:
        g = torch.randn(shape, generator=gen, dtype=D)
    return (g * scale).to(dtype)


# ------------------------------------------------------------------------------------------------ builders
def build_precond(ds, pc):
    import matrix_functions_types as mft

    s = pc["solver"]
    if s["type"] == "eigen":
        amort = mft.EigenConfig(enhance_stability=s.get("enhance_stability", False), exponent_multiplier=s.get("exponent_multiplier", 1.0))
    elif s["type"] == "newton":
        amort = mft.CoupledNewtonConfig(max_iterations=s["max_iterations"], tolerance=s["tolerance"])
    elif s["type"] == "ho":
        amort = mft.CoupledHigherOrderConfig(order=s["order"], rel_epsilon=s["rel_epsilon"], max_iterations=s["max_iterations"], tolerance=s["tolerance"])
    elif s["type"] == "eigh":
        amort = mft.EighEigenvectorConfig()
    else:
        amort = mft.QRConfig(max_iterations=s["max_iterations"], tolerance=s["tolerance"])
    cls = ds.ShampooPreconditionerConfig if pc["kind"] == "shampoo" else ds.EigenvalueCorrectedShampooPreconditionerConfig
    return cls(amortized_computation_config=amort, ignored_dims=list(pc["ignored_dims"]), num_tolerated_failed_amortized_computations=pc.get("num_tolerated", 3))


def build_grafting(ds, g):
    if g is None:
        return None
    if g["type"] == "sgd":
        return ds.SGDGraftingConfig()
    if g["type"] == "adagrad":
        return ds.AdaGradGraftingConfig(epsilon=g["epsilon"])
    if g["type"] == "rmsprop":
        return ds.RMSpropGraftingConfig(beta2=g["beta2"], epsilon=g["epsilon"])
    return ds.AdamGraftingConfig(beta2=g["beta2"], epsilon=g["epsilon"])


def optimizer_kwargs(ds, torch, cfg):
    iro = cfg["inv_root_override"]
    return dict(
        lr=cfg["lr"],
        betas=tuple(cfg["betas"]),
        beta3=cfg["beta3"],
        epsilon=cfg["epsilon"],
        momentum=cfg["momentum"],
        dampening=cfg["dampening"],
        weight_decay=cfg["weight_decay"],
        max_preconditioner_dim=cfg["max_preconditioner_dim"],
        precondition_frequency=cfg["precondition_frequency"],
        start_preconditioning_step=cfg["start_preconditioning_step"],
        inv_root_override=list(iro) if isinstance(iro, (list, tuple)) else iro,
        use_nesterov=cfg["use_nesterov"],
        use_bias_correction=cfg["use_bias_correction"],
        use_decoupled_weight_decay=cfg["use_decoupled_weight_decay"],
        grafting_config=build_grafting(ds, cfg["grafting"]),
        use_merge_dims=cfg["use_merge_dims"],
        preconditioner_dtype=getattr(torch, cfg["preconditioner_dtype"]),
        preconditioner_config=build_precond(ds, cfg["precond"]),
    )


GROUP_OVERRIDE_KEYS = {
    "lr": "lr",
    "betas": "betas",
    "beta3": "beta3",
    "epsilon": "epsilon",
    "momentum": "momentum",
    "dampening": "dampening",
    "weight_decay": "weight_decay",
    "precondition_frequency": "precondition_frequency",
    "start_preconditioning_step": "start_preconditioning_step",
    "use_nesterov": "use_nesterov",
    "use_bias_correction": "use_bias_correction",
    "use_decoupled_weight_decay": "use_decoupled_weight_decay",
    "max_preconditioner_dim": "max_preconditioner_dim",
    "use_merge_dims": "use_merge_dims",
}


def make_params(torch, shapes, dtype, gen, scale=1.0):
    return [torch.nn.Parameter((torch.randn(s, generator=gen, dtype=torch.float64) * scale).to(dtype)) for s in shapes]


def build_optimizer(ds, torch, cfg, params, groups=None, **extra):
    """groups: list of {"params": [indices], "overrides": {key: value}} or None for a single group"""
    kw = optimizer_kwargs(ds, torch, cfg)
    kw.update(extra)
    if not groups:
        return ds.DistributedShampoo(params, **kw)
    pg = []
    for g in groups:
        d = {"params": [params[i] for i in g["params"]]}
        for k, v in (g.get("overrides") or {}).items():
            if k == "precond":
                d["preconditioner_config"] = build_precond(ds, v)
            elif k == "grafting":
                d["grafting_config"] = build_grafting(ds, v)
            elif k == "preconditioner_dtype":
                d["preconditioner_dtype"] = getattr(torch, v)
            else:
                d[k] = tuple(v) if k == "betas" else v
        pg.append(d)
    return ds.DistributedShampoo(pg, **kw)
