"""One real process of a gloo world (thorough tier of C06): python -m vf.gloo_rank <setup.json> <rank> <dir>

Appends ledger events to <dir>/ledger_<rank>.jsonl BEFORE and AFTER every new_group / all_gather_into_tensor call and saves the
per-step parameters to <dir>/params_<rank>.pt.  Verdicts are taken by the parent from the logs."""
from __future__ import annotations

import json
import os
import sys


def main(argv):
    setup_path, rank, d = argv[0], int(argv[1]), argv[2]
    S = json.load(open(setup_path))
    seed = S["seed"]
    from .common import import_repo, tgen

    ds = import_repo()
    import torch
    import torch.distributed as dist
    import torch.distributed.device_mesh as dm
    import torch.distributed.distributed_c10d as c10d

    from . import gen as G
    from .distlib import ddp_config

    log = open(os.path.join(d, f"ledger_{rank}.jsonl"), "a", buffering=1)
    state = {"iter": -1, "seq": {}}

    def emit(**kw):
        log.write(json.dumps(kw) + "\n")
        log.flush()
        os.fsync(log.fileno())

    orig_ag, orig_ng = dist.all_gather_into_tensor, c10d.new_group

    def ag(out, inp, group=None, async_op=False):
        ranks = tuple(dist.get_process_group_ranks(group if group is not None else dist.group.WORLD))
        s = state["seq"].get(ranks, 0)
        state["seq"][ranks] = s + 1
        emit(ev="call", op="all_gather", group=ranks, seq=s, iter=state["iter"], nbytes=inp.numel() * inp.element_size())
        r = orig_ag(out, inp, group=group, async_op=async_op)
        emit(ev="ret", op="all_gather", group=ranks, seq=s)
        return r

    def ng(ranks=None, *a, **k):
        emit(ev="call", op="new_group", group=tuple(ranks) if ranks is not None else None)
        r = orig_ng(ranks, *a, **k)
        emit(ev="ret", op="new_group", group=tuple(ranks) if ranks is not None else None)
        return r

    dist.all_gather_into_tensor = ag
    c10d.all_gather_into_tensor = ag
    dist.new_group = ng
    c10d.new_group = ng
    dm.new_group = ng
    dist.init_process_group("gloo", init_method=f"file://{d}/store", rank=rank, world_size=S["W"])
    cfg = S["cfg"]
    dt = getattr(torch, cfg["param_dtype"])
    init = G.make_params(torch, S["shapes"], dt, tgen(*seed, "init"), scale=S["grad_scale"])
    if S.get("pdts"):
        init = [p.detach().to(getattr(torch, x)) for p, x in zip(init, S["pdts"])]
    params = [torch.nn.Parameter(p.detach().clone()) for p in init]
    opt = G.build_optimizer(ds, torch, cfg, params, distributed_config=ddp_config(ds, S["comm"], S.get("G_arg", S["G"]), S["communicate_params"]))
    hist = []
    for t in range(S["T"]):
        state["iter"] = t
        # the gradient all-reduce of data-parallel training (a real world collective)
        emit(ev="call", op="grad_allreduce", iter=t)
        dist.all_reduce(torch.zeros(1))
        emit(ev="ret", op="grad_allreduce", iter=t)
        for j, (p, s) in enumerate(zip(params, S["shapes"])):
            p.grad = G.grad_for(torch, tgen(*seed, "g", t, j), s, p.dtype, S["grad_kind"], S["grad_scale"] * (1 + j)) if S["presence"][t][j] else None
        opt.step()
        hist.append([p.detach().clone() for p in params])
    torch.save(hist, os.path.join(d, f"params_{rank}.pt"))
    emit(ev="finished")
    dist.destroy_process_group()
    return 0


if __name__ == "__main__":
    sys.exit(main(sys.argv[1:]))
