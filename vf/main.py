"""E1 case runner + E8 evidence / known-finding / replay plumbing (DESIGN 2, 5).

./check <ID> <quick|thorough>      run the tier
./check <ID> --replay <file>       re-run one recorded case
"""
from __future__ import annotations

import importlib
import json
import os
import shutil
import subprocess
import sys
import tempfile
import time

from .common import HOME, REPO, eprint

WORKERS = int(os.environ.get("VERIF_WORKERS", str(min(16, os.cpu_count() or 4))))


def load_known():
    known, fixed = [], []
    p = os.path.join(HOME, "KNOWN_FINDINGS.txt")
    if os.path.exists(p):
        for line in open(p):
            line = line.strip()
            if not line or line.startswith("#"):
                continue
            kind, _, rest = line.partition(":")
            fields = dict(tok.split("=", 1) for tok in rest.split() if "=" in tok and tok.split("=", 1)[0] in ("property", "mechanism"))
            if kind == "known":
                text = " ".join(tok for tok in rest.split() if not tok.startswith("property="))
                known.append({"property": fields.get("property"), "mechanism": fields.get("mechanism"), "text": text})
            elif kind == "fixed":
                fixed.append({"property": fields.get("property"), "text": rest.strip()})
    return known, fixed


def run_workers(prop: str, cases: list, timeout: float, per_case_process: bool, shards_per_worker: int):
    """Shard `cases` over worker subprocesses; returns (results, worker_faults)."""
    tmp = tempfile.mkdtemp(prefix=f"vf_{prop}_")
    try:
        if per_case_process:
            shards = [[c] for c in cases]
        else:
            n = max(1, min(len(cases), WORKERS * shards_per_worker))
            shards = [cases[i::n] for i in range(n)]
        pending = list(enumerate(shards))
        running = {}
        results, faults = [], []
        env = dict(os.environ)

        def launch(i, shard):
            inp = os.path.join(tmp, f"in_{i}.json")
            out = os.path.join(tmp, f"out_{i}.jsonl")
            with open(inp, "w") as f:
                json.dump(shard, f)
            log = open(os.path.join(tmp, f"log_{i}.txt"), "w")
            p = subprocess.Popen([sys.executable, "-m", "vf.worker", prop, inp, out], stdout=log, stderr=subprocess.STDOUT, env=env, cwd=HOME)
            running[i] = (p, time.time(), out, log, shard)

        def collect(i, state):
            p, t0, out, log, shard = running.pop(i)
            log.close()
            got = []
            if os.path.exists(out):
                for line in open(out):
                    line = line.strip()
                    if line:
                        try:
                            got.append(json.loads(line))
                        except json.JSONDecodeError:
                            pass
            results.extend(got)
            done_ids = {r["id"] for r in got}
            missing = [c["id"] for c in shard if c["id"] not in done_ids]
            if missing:
                full = open(os.path.join(tmp, f"log_{i}.txt")).read()
                tail = full[:2500] + ("\n...\n" + full[-800:] if len(full) > 3300 else "")
                crashdir = os.path.join(os.environ.get("VERIF_REPLAY_DIR") or os.path.join(HOME, "replays"), "_worker_crashes")
                os.makedirs(crashdir, exist_ok=True)
                with open(os.path.join(crashdir, f"{prop}_shard{i}.log"), "w") as cf:
                    cf.write(full)
                faults.append({"shard": i, "state": state, "missing": missing[:5], "n_missing": len(missing), "log_tail": tail})

        while pending or running:
            while pending and len(running) < WORKERS:
                i, shard = pending.pop(0)
                launch(i, shard)
            time.sleep(0.05)
            for i in list(running):
                p, t0, *_ = running[i]
                rc = p.poll()
                if rc is not None:
                    collect(i, f"exit {rc}")
                elif time.time() - t0 > timeout:
                    p.kill()
                    p.wait()
                    collect(i, "watchdog")
        return results, faults
    finally:
        shutil.rmtree(tmp, ignore_errors=True)


def run_workers_with_retry(prop, cases, timeout, per_case_process, shards_per_worker):
    """A worker process that dies (C-level abort in torch's in-process test backend under load, OOM kill) loses the cases it had not
    reported yet: those are re-run, one process per case, up to two more times.  Crashes that persist stay faults (-> inconclusive)."""
    results, faults = run_workers(prop, cases, timeout, per_case_process, shards_per_worker)
    retried = 0
    for _attempt in range(2):
        if not faults or any(f["state"] == "watchdog" for f in faults):
            break  # a hang is not a crash: re-running the shard's cases would only wait for the watchdog again
        done = {r["id"] for r in results}
        missing = [c for c in cases if c["id"] not in done]
        if not missing or len(missing) > max(8, len(cases) // 4):
            break
        retried += len(missing)
        res2, faults = run_workers(prop, missing, timeout, True, 1)
        results.extend(res2)
    return results, faults, retried


def aggregate(results):
    agg = {}
    for r in results:
        for k, v in (r.get("counters") or {}).items():
            if k.startswith("max_"):
                agg[k] = max(agg.get(k, 0.0), v)
            elif k.startswith("min_"):
                agg[k] = min(agg.get(k, float("inf")), v)
            elif k.startswith("set_"):
                agg.setdefault(k, set()).update(v)
            else:
                agg[k] = agg.get(k, 0) + v
    return agg


def main(argv):
    if len(argv) < 2:
        eprint(__doc__)
        return 2
    prop = argv[0].upper()
    mod = importlib.import_module(f"vf.props.{prop.lower()}")
    seed = int(os.environ.get("VERIF_SEED", "0") or 0)
    known, _fixed = load_known()
    known = [k for k in known if k["property"] == prop]
    t0 = time.time()

    if argv[1] == "--replay":
        rec = json.load(open(argv[2]))
        cases = [rec["case"]]
        tier = rec.get("tier", "quick")
        replay = True
    else:
        tier = os.environ.get("VERIF_TIER") or argv[1]
        if tier not in ("quick", "thorough"):
            eprint("tier must be quick|thorough")
            return 2
        cases = mod.gen_cases(tier, seed)
        replay = False
    ids = [c["id"] for c in cases]
    assert len(set(ids)) == len(ids), "case ids must be unique"

    timeout = getattr(mod, "TIMEOUT", {"quick": 900, "thorough": 5400})[tier]
    results, faults, retried = run_workers_with_retry(prop, cases, timeout, getattr(mod, "PER_CASE_PROCESS", False), getattr(mod, "SHARDS_PER_WORKER", {"quick": 1, "thorough": 3})[tier])
    by_id = {c["id"]: c for c in cases}

    metas = [r for r in results if r.get("status") == "meta"]
    results = [r for r in results if r.get("status") != "meta"]
    agg = aggregate(results + metas)
    reached = agg.pop("set_reach", None)
    sigs = set()
    evaluations = 0
    violations, inconcl, samples = [], [], []
    for r in results:
        evaluations += int((r.get("counters") or {}).get("evals", 1))
        for s in r.get("sigs") or ([] if r.get("sig") is None else [r["sig"]]):
            sigs.add(json.dumps(s, sort_keys=True) if not isinstance(s, str) else s)
        if r["status"] == "violation":
            violations.append(r)
        elif r["status"] == "inconclusive":
            inconcl.append(r)
        if r.get("sample") is not None and len(samples) < 5:
            samples.append(r["sample"])
    if not samples:
        samples = [by_id[r["id"]] for r in results[:3]]

    # --- violations vs known findings -------------------------------------------------------
    unlisted, listed = [], {}
    for r in violations:
        case = by_id[r["id"]]
        mech = None
        if hasattr(mod, "classify"):
            try:
                mech = mod.classify(case, r.get("witness") or {})
            except Exception:  # a broken classifier must never hide a violation
                mech = None
        k = next((k for k in known if k["mechanism"] == mech), None) if mech else None
        if k is not None:
            listed.setdefault(mech, (k, []))[1].append(r)
        else:
            unlisted.append(r)
    for mech, (k, rs) in listed.items():
        print(f"KNOWN-FINDING: property={prop} {k['text']} [{len(rs)} case(s) this run, e.g. {rs[0]['id']}]")
    rdir = os.path.join(os.environ.get("VERIF_REPLAY_DIR") or os.path.join(HOME, "replays"), prop)
    # --- simulated-rank checks: an alarm must reproduce ----------------------------------------
    # Ranks are threads of one process there, and torch's in-process backend is not free of thread-level races of its own
    # (observed: pybind11 aborts, one unreproducible 2e-11 deviation in 5000 case-runs).  Every case is deterministic by
    # construction (seeded inputs, logical interleavings), so a genuine violation reproduces when the case is re-run in a fresh
    # process; an alarm that stays silent in 3 fresh re-runs is recorded as unreproduced (evidence + replay file), not reported.
    unreproduced = []
    if getattr(mod, "CONFIRM_BY_RERUN", False) and not replay and 0 < len(unlisted) <= 4:
        confirmed = False
        for r in unlisted:
            for _attempt in range(3):
                res2, _f2 = run_workers(prop, [by_id[r["id"]]], timeout, True, 1)
                if any(x.get("status") == "violation" for x in res2):
                    confirmed = True
                    break
            if confirmed:
                break
            unreproduced.append(r)
        if confirmed:
            unreproduced = []
        else:
            unlisted = []
            os.makedirs(rdir, exist_ok=True)
            for r in unreproduced:
                path = os.path.join(rdir, f"_unreproduced_{r['id']}.json")
                with open(path, "w") as f:
                    json.dump({"property": prop, "tier": tier, "seed": seed, "case": by_id[r["id"]], "witness": r.get("witness")}, f, indent=1, default=str)
                print(f"UNREPRODUCED-ALARM property={prop} case={r['id']} (silent in 3 fresh re-runs; witness in {os.path.relpath(path, HOME)}): {(r.get('witness') or {}).get('what')}")
    for r in unlisted[:25]:
        os.makedirs(rdir, exist_ok=True)
        path = os.path.join(rdir, f"{r['id']}.json")
        with open(path, "w") as f:
            json.dump({"property": prop, "tier": tier, "seed": seed, "case": by_id[r["id"]], "witness": r.get("witness")}, f, indent=1, default=str)
        w = r.get("witness") or {}
        print(f"VIOLATION property={prop} replay={os.path.relpath(path, HOME)}")
        print(f"  what: {w.get('what')}")
    if len(unlisted) > 25:
        print(f"  ... and {len(unlisted) - 25} more violating cases")

    # --- conclusiveness ---------------------------------------------------------------------
    reasons = []
    if faults:
        reasons.append(f"{len(faults)} worker shard(s) did not finish ({faults[0]['state']}): {faults[0]['log_tail'][-400:]!r}")
    if inconcl:
        reasons.append(f"{len(inconcl)} case(s) inconclusive, e.g. {inconcl[0]['id']}: {(inconcl[0].get('witness') or {}).get('what')}")
    if not replay and hasattr(mod, "conclusive"):
        why = mod.conclusive(agg, results, tier)
        if why:
            reasons.append(why)
    reach_report = None
    if not replay and getattr(mod, "ANCHORS", None) and reached is not None:
        from . import reach as _reach

        reach_report, never = _reach.report(mod.ANCHORS, reached)
        if never:
            reasons.append(f"anchored function(s) never entered by the workload: {never}")
    if not replay and len(sigs) < 2:
        reasons.append(f"only {len(sigs)} distinct non-trivial case(s)")

    wall = time.time() - t0
    if not replay:
        cov = {
            "evaluations": int(evaluations),
            "distinct_nontrivial": len(sigs),
            "rule": mod.RULE,
            "samples": samples,
            "cases": len(cases),
            "cases_finished": len(results),
            "workers": WORKERS,
            "cases_rerun_after_worker_crash": retried,
        }
        if getattr(mod, "EXHAUSTIVE", {}).get(tier):
            cov["exhaustive"] = True
            cov["exhaustive_over"] = mod.EXHAUSTIVE[tier]
        for k, v in agg.items():
            cov[k] = len(v) if isinstance(v, set) else v
        if reach_report is not None:
            cov["anchor_reach"] = reach_report
            cov["repo_lines_reached"] = len(reached)
        cov["known_findings_matched"] = {m: len(rs) for m, (k, rs) in listed.items()}
        cov["unreproduced_alarms"] = [{"case": r["id"], "what": (r.get("witness") or {}).get("what")} for r in unreproduced]
        cov["inconclusive_reasons"] = reasons
        ev = {
            "property_id": prop,
            "tier": tier,
            "seed": seed,
            "level": mod.LEVEL,
            "coverage": cov,
            "assumptions": getattr(mod, "ASSUMPTIONS", []),
            "wall_s": round(wall, 2),
            "violations": len(unlisted),
            "verdict": "violated" if unlisted else ("inconclusive" if reasons else "held on what was observed"),
            "repo": REPO,
        }
        evdir = os.environ.get("VERIF_EVIDENCE_DIR") or os.path.join(HOME, "evidence")
        os.makedirs(evdir, exist_ok=True)
        with open(os.path.join(evdir, f"{prop}.json"), "w") as f:
            json.dump(ev, f, indent=1, default=str)
            f.write("\n")

    if unlisted:
        return 1
    if reasons:
        print(f"INCONCLUSIVE property={prop} reason={' | '.join(reasons)}")
        return 2
    print(f"OK property={prop} tier={tier} seed={seed} cases={len(cases)} evaluations={evaluations} distinct_nontrivial={len(sigs)} wall={wall:.1f}s")
    return 0


if __name__ == "__main__":
    sys.exit(main(sys.argv[1:]))
