"""Float64 spectral oracles for the matrix routines (C10, C11, C12; reused by C01/C03).

Independent of the repository: builds matrices with known spectra, exact inverse roots by construction,
the perturbation-theory error bound of DESIGN 1.4, and the gap-aware cluster-projector comparison for
orthogonal iteration."""
from __future__ import annotations

import math

import numpy as np
import torch

D = torch.float64
_DEBUG = bool(__import__('os').environ.get('VF_DEBUG'))


def haar(n, gen):
    Q, R = torch.linalg.qr(torch.randn(n, n, generator=gen, dtype=D))
    return Q * torch.sign(torch.diagonal(R)).where(torch.diagonal(R) != 0, torch.ones(n, dtype=D))


def spectrum(kind, n, kappa, gen, scale=1.0):
    """eigenvalues in [scale/kappa, scale] (rank-deficient kinds put exact zeros)"""
    if n == 1:
        return torch.tensor([scale], dtype=D)
    lk = math.log10(max(kappa, 1.0))
    if kind == "geometric":
        lam = torch.logspace(0, -lk, n, dtype=D)
    elif kind == "clustered":  # two tight clusters
        lam = torch.cat([torch.ones(n // 2, dtype=D) * (1 + 1e-3 * torch.rand(n // 2, generator=gen, dtype=D)), torch.ones(n - n // 2, dtype=D) * 10.0 ** (-lk) * (1 + 1e-3 * torch.rand(n - n // 2, generator=gen, dtype=D))])
    elif kind == "repeated":  # exact ties
        lam = torch.logspace(0, -lk, max(2, n // 3), dtype=D).repeat_interleave(3)[:n]
        if lam.numel() < n:
            lam = torch.cat([lam, lam[-1:].expand(n - lam.numel())])
    elif kind == "rank_deficient":
        k = max(1, n // 2)
        lam = torch.cat([torch.logspace(0, -min(lk, 3), k, dtype=D), torch.zeros(n - k, dtype=D)])
    elif kind == "one_big":
        lam = torch.full((n,), 10.0 ** (-lk), dtype=D)
        lam[0] = 1.0
    elif kind == "uniform":
        lam = 10.0 ** (-lk) + (1 - 10.0 ** (-lk)) * torch.rand(n, generator=gen, dtype=D)
    elif kind == "zero":
        lam = torch.zeros(n, dtype=D)
    else:
        raise ValueError(kind)
    return lam * scale


def sym_from(Q, lam):
    A = (Q * lam) @ Q.T
    return (A + A.T) / 2


def exact_inverse_root(Q, lam, eps, r):
    return (Q * ((lam + eps) ** (-1.0 / float(r)))) @ Q.T


def inverse_root_oracle(A64, eps, r):
    """float64 eigendecomposition oracle for (A + eps I)^(-1/r), negative eigenvalues of A clamped like the
    documented eigen path (shift by -min(lambda_min,0))."""
    ev, Q = torch.linalg.eigh((A64 + A64.T) / 2)
    shift = -float(torch.clamp(ev.min(), max=0.0))
    ev = ev + shift
    inverse_root_oracle.last_shift = shift
    return (Q * ((ev + eps) ** (-1.0 / float(r)))) @ Q.T, ev


def exponent_rounding(r):
    """| fl32(-1/r) - (-1/r) | : the exponent is carried as a float32 tensor"""
    e = -1.0 / float(r)
    return abs(float(np.float32(e)) - e)


def root_error_bound(n, u, lam_min, lam_max, eps, r, *, C_m, tol_solver=0.0, exponent_f32=True):
    """relative Frobenius error bound of DESIGN 1.4 for X ~ (A+eps I)^(-1/r)"""
    lo, hi = max(lam_min, 0.0) + eps, lam_max + eps
    cond = hi / lo
    b = C_m * n * u * (cond + 1.0) / float(r) + tol_solver
    if exponent_f32:
        b += 1.05 * max(abs(math.log(lo)), abs(math.log(hi))) * exponent_rounding(r) + 8 * u
    return b, cond


def rel_fro(X, Xs):
    X = X.to(D)
    return float((X - Xs).norm() / Xs.norm().clamp_min(1e-300))


# ------------------------------------------------------------------------------------------------
# orthogonal iteration reference + gap-aware cluster-projector comparison (C12, C03)
# ------------------------------------------------------------------------------------------------
def ref_orth_iter(A, Q0, k):
    Q = Q0
    for _ in range(k):
        Q = torch.linalg.qr(A @ Q).Q
    ev = torch.einsum("ij,ik,kj->j", Q, A, Q)
    o = ev.argsort()
    return Q[:, o], ev[o]


def cluster_cmp(out, Qr, ev, u, n, normA, C=256.0, probe=None):
    """Compare column-cluster projectors of `out` with the reference `Qr` (Rayleigh quotients `ev`, ascending).
    Clusters are maximal runs of Rayleigh quotients separated by more than a rounding-level gap; a cluster is
    comparable iff its gap-aware tolerance is <= 0.1.  When `probe` (the reference iteration re-run with emulated
    working-precision rounding noise) is given and ANY cluster of the reference moves under that noise, the column
    order itself is not reproducible and nothing is compared (vacuous).
    Returns (ok, n_nonvacuous_clusters, worst_ratio)."""
    if normA <= 0:
        return True, 0, 0.0
    delta = max(1e3 * n * u, 1e-9) * normA
    cuts = [0] + [i + 1 for i in range(n - 1) if float(ev[i + 1] - ev[i]) > delta] + [n]
    clusters = []
    for a, b in zip(cuts[:-1], cuts[1:]):
        gap = min(float(ev[a] - ev[a - 1]) if a > 0 else float("inf"), float(ev[b] - ev[b - 1]) if b < n else float("inf"))
        tol = C * n * u * normA / gap if gap < float("inf") else C * n * u
        tol = max(tol, C * n * u)
        Pb = Qr[:, a:b] @ Qr[:, a:b].T
        if probe is not None:
            Pp = probe[:, a:b] @ probe[:, a:b].T
            if float((Pp - Pb).norm()) > min(tol, 0.1) / 8:
                return True, 0, 0.0  # ill-conditioned: rounding noise alone moves the decomposition
        clusters.append((a, b, tol, Pb))
    ok, nonvac, worst = True, 0, 0.0
    for a, b, tol, Pb in clusters:
        if tol > 0.1:
            continue
        nonvac += 1
        Pa = out[:, a:b] @ out[:, a:b].T
        r = float((Pa - Pb).norm()) / tol
        worst = max(worst, r)
        if r > 1.0:
            ok = False
    return ok, nonvac, worst


def match_orth_iter(out, A64, Q0_64, max_iter, u, C=256.0, gen=None, n_probes=2):
    """Is `out` the k-fold orthogonal-iteration update of Q0 for SOME 1<=k<=max_iter (Rayleigh-sorted)?
    The float64 reference is re-run `n_probes` times with emulated working-precision rounding noise; wherever any probe moves a
    cluster of the reference (unstable fixed points, rank-deficient A@Q), nothing is compared at that k (vacuous).
    Returns (matched, best_k, nonvacuous_clusters, worst_ratio_of_best)."""
    n = A64.shape[0]
    normA = float(torch.linalg.matrix_norm(A64, 2)) if n > 0 else 0.0
    out = out.to(D)
    best = None
    Q = Q0_64
    Qps = []
    if gen is not None:
        for _ in range(n_probes):
            Qps.append(torch.linalg.qr(Q0_64 + 8 * u * torch.randn(n, n, generator=gen, dtype=D)).Q)
    for k in range(1, max_iter + 1):
        Q = torch.linalg.qr(A64 @ Q).Q
        ev = torch.einsum("ij,ik,kj->j", Q, A64, Q)
        o = ev.argsort()
        stable = True
        for i, Qp in enumerate(Qps):
            # emulate working-precision arithmetic: rounding noise of the product fl(A@Q), elementwise ~ u*(|A||Q|)
            Mp = A64 @ Qp
            Mp = Mp + 8 * u * (A64.abs() @ Qp.abs()) * torch.randn(n, n, generator=gen, dtype=D)
            Qp = torch.linalg.qr(Mp).Q
            Qps[i] = Qp
            evp = torch.einsum("ij,ik,kj->j", Qp, A64, Qp)
            okp, nvp, _ = cluster_cmp(Qp[:, evp.argsort()], Q[:, o], ev[o], u, n, normA, C, probe=Qp[:, evp.argsort()])
            if nvp == 0:
                stable = False
        if not stable:
            ok, nv, worst = True, 0, 0.0
        else:
            ok, nv, worst = cluster_cmp(out, Q[:, o], ev[o], u, n, normA, C, None)
        if ok and (best is None or nv > best[1]):
            best = (k, nv, worst)
    if best is None:
        return False, None, 0, float("inf")
    return True, best[0], best[1], best[2]


def qr_backward_check(out, A64, Q0_64, u, C=64.0):
    """One orthogonal-iteration step is backward stable whatever the conditioning: there must be a row permutation
    (the Rayleigh sort) that makes out^T (A Q0) upper triangular up to C*n*u*||A||.  Returns (ok, worst_ratio)."""
    n = A64.shape[0]
    normA = float(torch.linalg.matrix_norm(A64, 2))
    tol = C * n * u * max(normA, 1e-300)
    T = (out.to(D).T @ (A64 @ Q0_64)).abs()
    big = T > tol
    first = []
    for r in range(n):
        nz = torch.nonzero(big[r]).flatten()
        first.append(int(nz[0]) if nz.numel() else n)
    first.sort()
    ok = all(f >= i for i, f in enumerate(first))
    return ok, first


def stop_rule_check(out, A64, Q0_64, max_iter, tol, u, gen, C=256.0, n_probes=3, work_dtype=None):
    """QRConfig documents `tolerance` as a bound on the RELATIVE change ||Q_new - Q_old|| / ||Q_old|| of the estimate.
    J = iterations j at which the documented loop may stop: evaluated on the float64 reference AND on `n_probes` runs with
    emulated working-precision noise (inside near-degenerate clusters the iterates keep rotating under rounding noise, so the
    relative change is not reproducible across precisions), each with raw and with sign-aligned columns (Householder sign
    conventions), with a factor-1.5 band around the tolerance.
    A further probe runs the documented loop in the WORKING dtype (`work_dtype`): Householder column signs follow the sign of
    pivots that may be pure noise or underflowed zeros there (exactly diagonal inputs), which no float64 run reproduces; like
    every probe it can only ADD admissible stopping iterations.
    M = iterations j whose (probe-stable, non-vacuous) reference iterate matches `out`.
    Returns (verdict, J, M) with verdict in {"ok", "vacuous", "violated"}."""
    n = A64.shape[0]
    normA = float(torch.linalg.matrix_norm(A64, 2))
    out = out.to(D)
    seqs = [Q0_64] + [torch.linalg.qr(Q0_64 + 8 * u * torch.randn(n, n, generator=gen, dtype=D)).Q for _ in range(n_probes)]
    rels = [([], []) for _ in seqs]
    M, unknown = [], set()
    for j in range(1, max_iter + 1):
        new = []
        for idx, Q in enumerate(seqs):
            Mx = A64 @ Q
            if idx > 0:
                Mx = Mx + 8 * u * (A64.abs() @ Q.abs()) * torch.randn(n, n, generator=gen, dtype=D)
            Qn = torch.linalg.qr(Mx).Q
            sgn = torch.sign((Qn * Q).sum(0))
            sgn[sgn == 0] = 1
            rels[idx][0].append(float((Q - Qn).norm() / Q.norm()))
            rels[idx][1].append(float((Q - Qn * sgn).norm() / Q.norm()))
            new.append(Qn)
        seqs = new
        Q = seqs[0]
        ev = torch.einsum("ij,ik,kj->j", Q, A64, Q)
        o = ev.argsort()
        stable = True
        for Qp in seqs[1:]:
            evp = torch.einsum("ij,ik,kj->j", Qp, A64, Qp)
            _, nvp, _ = cluster_cmp(Qp[:, evp.argsort()], Q[:, o], ev[o], u, n, normA, C, probe=Qp[:, evp.argsort()])
            stable = stable and nvp > 0
        if not stable:
            unknown.add(j)  # the reference itself is not reproducible at this iteration: nothing can be refuted about it
            continue
        ok, nv, _ = cluster_cmp(out, Q[:, o], ev[o], u, n, normA, C, None)
        if nv == 0:
            unknown.add(j)
        elif ok:
            M.append(j)

    def stops(rel):
        J = set()
        for j in range(1, max_iter + 1):
            if all(rel[i - 1] > tol / 1.5 for i in range(1, j)) and (rel[j - 1] <= tol * 1.5 or j == max_iter):
                J.add(j)
        return J

    J = set()
    if work_dtype is not None and work_dtype != D:
        Aw, Qw, raw_w = A64.to(work_dtype), Q0_64.to(work_dtype), []
        try:
            for j in range(1, max_iter + 1):
                last, Qw = Qw, torch.linalg.qr(Aw @ Qw).Q
                raw_w.append(float((last - Qw).norm() / last.norm()))
            J |= stops(raw_w)
        except RuntimeError:
            pass  # no QR kernel for this dtype: the probe adds nothing
    for raw, al in rels:
        J |= stops(raw) | stops(al)
        J |= set(range(min(stops(al)), max(stops(raw)) + 1)) if stops(al) and stops(raw) else set()  # any mixture of flipped / unflipped columns
    if not M or (J & unknown):
        return "vacuous", sorted(J), M
    if J & set(M):
        return "ok", sorted(J), M
    return "violated", sorted(J), M
