"""C01 - every step follows the documented Shampoo update rule.

Real code: DistributedShampoo.step() (serial) on generated configurations / shapes / histories.
Oracle: the step-locked float64 reference model (vf/ref.py), per block, after every step."""
from __future__ import annotations

import io

from ..common import OutOfDomain, Violation, import_repo, rng_for, tgen

ID = "C01"
LEVEL = "exploration"
RULE = (
    "one case = one generated run: configuration (all grafting types/none, betas, beta3, epsilon relative to gradient scale, momentum/dampening/Nesterov, "
    "decay value and mode, bias correction, inv_root_override int/list, exponent multiplier, ignored dims, max_preconditioner_dim, merge on/off, "
    "frequency/start, 1-3 param groups with overrides, dtype pairs, Shampoo with all four root solvers and SOAP eigh/QR) x 1-4 parameters of order 0..4 "
    "x 6-25 steps with gradient-presence patterns and lr/weight-decay/momentum edits between steps; every (step, block) with a gradient is one evaluation. "
    "Non-trivial: the run contains >=1 refresh at/after the start step and >=1 preconditioned step. Distinct by (precond, solver, grafting, decay mode, "
    "momentum/Nesterov/dampening flags, bias correction, beta3!=beta1, orders present, dtype pair, #groups, had absent gradient, had scheduler edit)."
)
ASSUMPTIONS = [
    "CPU, dense finite gradients, contiguous parameters",
    "preconditioner_dtype in {float32,float64}; parameter dtype in {float32,float64,bfloat16}",
    "per-order inv_root_override lists are indexed by tensor order (entry 0 for 0-D blocks) with entries >= 1",
    "momentum edited between steps only among non-zero values; lr / weight decay edited freely (lr >= 0)",
    "iterative root solvers are not combined with bfloat16 parameters (bfloat16 Gram products are indefinite at the 2^-8 level and those solvers have no spectrum shift)",
    "runs in which a documented value (direction, its squared norm when grafting, a factor entry) is not representable in the tensor's dtype are ended without verdict and counted (aborted_*)",
    "iterative root solvers run with weight_decay=0 so that the factor scale stays tied to the gradient scale",
    "iterative root solvers are fed well-conditioned factors (epsilon >= 1e-2 * gradient scale^2) so that failure tolerance (C13) is not involved",
    "which elements a state entry block_k refers to is read from a Distributor built through the public constructor (tiling correctness is C05)",
    "tolerances: DESIGN 1.4 (C=64 float32/float64 with u_eff=max(u,2^-24) scaled by 1/min(bias correction); C=8 bfloat16)",
]
TIMEOUT = {"quick": 1200, "thorough": 5400}
ANCHORS = {
    "distributed_shampoo/distributed_shampoo.py": ["DistributedShampoo.step", "DistributedShampoo._per_group_step_impl", "DistributedShampoo._compute_filtered_grad_list", "DistributedShampoo._precondition_and_grafting", "DistributedShampoo._update_momentum", "DistributedShampoo._apply_decoupled_weight_decay", "DistributedShampoo._add_l2_regularization", "DistributedShampoo._mask_state_lists"],
    "distributed_shampoo/utils/shampoo_preconditioner_list.py": ["BaseShampooPreconditionerList._update_factor_matrices", "ShampooPreconditionerList._amortized_computation", "BaseShampooPreconditionerList._precondition_grad", "AdagradPreconditionerList.update_preconditioners", "AdagradPreconditionerList.precondition"],
}


def gen_cases(tier, seed):
    n = 320 if tier == "quick" else 5000
    cases = [{"id": f"run{i}", "seed": [seed, i]} for i in range(n)]
    cases += [{"id": f"long{i}", "seed": [seed, "long", i], "long": True} for i in range(12 if tier == "quick" else 200)]
    return cases


def make_run(case):
    """expand a case seed into the full (JSON-able) run description"""
    from .. import gen as G

    rnd = rng_for(*case["seed"], "c01")
    gs = rnd.choice([1e-3, 1.0, 1.0, 1e3])
    cfg = G.rand_config(rnd, grad_scale=gs, well_conditioned=rnd.random() < 0.8)
    shapes = G.rand_shapes(rnd, max_order=4, max_numel=300)
    # keep the number of blocks bounded
    while sum(G.n_blocks(s, cfg["max_preconditioner_dim"], cfg["use_merge_dims"]) for s in shapes) > 14:
        cfg["max_preconditioner_dim"] = {1: 2, 2: 3, 3: 4, 4: 5, 5: 8, 8: 1024, 1024: 1024}[cfg["max_preconditioner_dim"]]
        if cfg["max_preconditioner_dim"] == 1024:
            shapes = shapes[:2]
            if sum(G.n_blocks(s, 1024, cfg["use_merge_dims"]) for s in shapes) <= 14:
                break
    G.stabilise_iterative(cfg, shapes, gs)
    n = len(shapes)
    groups = None
    if n >= 2 and rnd.random() < 0.4:
        k = rnd.randint(2, min(3, n))
        cut = sorted(rnd.sample(range(1, n), k - 1))
        parts = [list(range(a, b)) for a, b in zip([0] + cut, cut + [n])]
        groups = []
        for part in parts:
            ov = {}
            for key in rnd.sample(["lr", "betas", "beta3", "epsilon", "momentum", "weight_decay", "precondition_frequency", "start_preconditioning_step", "use_nesterov", "dampening", "use_decoupled_weight_decay", "use_bias_correction", "grafting", "precond", "inv_root_override", "max_preconditioner_dim", "use_merge_dims", "preconditioner_dtype"], rnd.randint(0, 5)):
                if key == "lr":
                    ov[key] = rnd.choice([0.02, 0.3])
                elif key == "betas":
                    ov[key] = [rnd.choice([0.0, 0.85]), 0.97 if cfg["precond"]["solver"]["type"] in ("newton", "ho") else rnd.choice([1.0, 0.97])]
                elif key == "beta3":
                    ov[key] = rnd.choice([0.55, 0.0])
                elif key == "epsilon":
                    ov[key] = None  # filled in below, once the final epsilon is known
                elif key == "momentum":
                    ov[key] = rnd.choice([0.45, 0.0]) if cfg["momentum"] == 0 else rnd.choice([0.45, 0.55])
                elif key == "weight_decay":
                    ov[key] = 0.0 if cfg["precond"]["solver"]["type"] in ("newton", "ho") else rnd.choice([0.0, 0.021])
                elif key == "precondition_frequency":
                    ov[key] = rnd.choice([1, 2, 4])
                elif key == "start_preconditioning_step":
                    ov[key] = rnd.choice([4, 6, 8])
                elif key == "dampening":
                    ov[key] = rnd.choice([0.0, 0.15])
                elif key == "grafting":
                    ov[key] = G.rand_grafting(rnd)
                elif key == "precond":
                    if cfg["precond"]["solver"]["type"] in ("newton", "ho"):
                        continue  # the conditioning class of iterative solvers is set up for the whole run
                    ov[key] = G.rand_precond(rnd, allow_iterative=False, allow_ignored=cfg["inv_root_override"] == 0)
                elif key == "inv_root_override":
                    if cfg["precond"]["ignored_dims"]:
                        continue
                    ov[key] = rnd.choice([0, 2, [2, 1, 3]])
                elif key == "max_preconditioner_dim":
                    ov[key] = rnd.choice([3, 4, 1024])
                elif key == "use_merge_dims":
                    ov[key] = rnd.random() < 0.5
                elif key == "preconditioner_dtype":
                    if cfg["param_dtype"] == "bfloat16":
                        continue
                    ov[key] = rnd.choice(["float32", "float64"])
                else:
                    ov[key] = rnd.random() < 0.5
            if "epsilon" in ov:
                ov["epsilon"] = cfg["epsilon"] * 3
            eff_ign = ov.get("precond", cfg["precond"])["ignored_dims"]
            eff_iro = ov.get("inv_root_override", cfg["inv_root_override"])
            if eff_ign and eff_iro != 0:
                ov.pop("inv_root_override", None)
                if cfg["inv_root_override"] != 0:
                    ov.pop("precond", None)
            # keep start >= frequency inside the group (the documented domain)
            f = ov.get("precondition_frequency", cfg["precondition_frequency"])
            st = ov.get("start_preconditioning_step", cfg["start_preconditioning_step"] if cfg["start_preconditioning_step"] != -1 else cfg["precondition_frequency"])
            if st < f:
                ov["start_preconditioning_step"] = f
            groups.append({"params": part, "overrides": ov})
    T = rnd.randint(6, 25)
    if case.get("long"):
        T = rnd.randint(40, 90)  # long histories: late refreshes, bias corrections close to 1, many mask changes
    pk, presence = G.rand_presence(rnd, n, T)
    edits = G.rand_schedule(rnd, T, len(groups) if groups else 1, cfg)
    closure_steps = sorted(t for t in range(T) if rnd.random() < 0.5) if rnd.random() < 0.2 else []
    resume_steps = sorted(rnd.sample(range(T), rnd.randint(1, 2))) if rnd.random() < 0.2 else []
    # a parameter that never receives a gradient may just as well be frozen (requires_grad=False) inside its group
    frozen = [j for j in range(n) if not any(presence[t_][j] for t_ in range(T))] if rnd.random() < 0.5 else []
    return {"frozen": frozen, "cfg": cfg, "shapes": shapes, "groups": groups, "T": T, "presence_kind": pk, "presence": presence, "edits": edits, "closure_steps": closure_steps, "resume_steps": resume_steps, "grad_scale": gs, "grad_kind": rnd.choice(["dense", "dense", "lowrank", "sparse"])}


def diverged(params, run):
    """the run left the numeric regime the generator aims at: some parameter is astronomically larger than anything the
    gradient scale, learning rate and run length can explain (e.g. root override 1 with a tiny epsilon and no grafting)"""
    lim = 1e4 * (run["grad_scale"] + max([run["cfg"]["lr"]] + [e[3] for e in run["edits"] if e[2] == "lr"] + [0.3]) * run["T"] + 1.0)
    return any((not bool(p.detach().isfinite().all())) or float(p.detach().abs().max()) > lim for p in params if p.numel())


def classify_abort(e, run, obs):
    """Which documented / third-party reaction ended the run without a verdict?  None => the exception is a violation."""
    name = type(e).__name__
    cfg = run["cfg"]
    if name in ("PreconditionerValueError", "ValueError") and diverged(getattr(execute, "last_params", []), run):
        return "aborted_diverged"
    if name == "PreconditionerValueError" and cfg["epsilon"] < 1e-4 * run["grad_scale"] ** 2:
        return "aborted_nonfinite_root_ill_conditioned"
    if name == "PreconditionerValueError" and obs is not None and obs.nonfinite_from_finite:
        return "aborted_lapack_returned_nonfinite"
    if name == "PreconditionerValueError" and _epsilon_below_factor_resolution(getattr(execute, "last_opt", None), cfg):
        return "aborted_nonfinite_root_epsilon_below_resolution"
    return None


def _epsilon_below_factor_resolution(opt, cfg):
    """epsilon is lost in the rounding of the accumulated factor matrices (their entries were checked against the documented
    recurrence at every earlier step): eigenvalues of a rank-deficient factor are then negative at round-off level, larger than
    epsilon, and a non-finite root - answered by the documented PreconditionerValueError - is within C11's stated limits"""
    if opt is None:
        return False
    import torch

    worst = 0.0
    for st in opt.state.values():
        for v in (st.values() if isinstance(st, dict) else ()):
            sh = v.get("shampoo") if isinstance(v, dict) else None
            for f in getattr(sh, "factor_matrices", ()) or ():
                f = f.to_local() if hasattr(f, "to_local") else f
                if f.numel() and bool(torch.isfinite(f).all()):
                    worst = max(worst, float(f.abs().max()) * f.shape[0] * float(torch.finfo(f.dtype).eps))
    return cfg["epsilon"] < 16 * worst


def execute(run, case_seed, counters, monitor_kwargs=None, on_step=None):
    """build the optimizer, feed the history under the step-locked monitor"""
    ds = import_repo()
    import torch

    from .. import gen as G
    from ..ref import Monitor

    cfg = run["cfg"]
    dt = getattr(torch, cfg["param_dtype"])
    # parameters live on the gradient scale, so that coupled weight decay does not change the conditioning class
    params = G.make_params(torch, run["shapes"], dt, tgen(*case_seed, "init"), scale=run["grad_scale"])
    for j in run.get("frozen", ()):
        params[j].requires_grad_(False)
    opt = G.build_optimizer(ds, torch, cfg, params, run["groups"])
    mon = Monitor(ds, torch, opt, cfg, run["groups"], counters=counters, **(monitor_kwargs or {}))
    gg = tgen(*case_seed, "grads")
    edits = list(run["edits"])
    closure_steps = set(run.get("closure_steps", ()))
    resume_steps = set(run.get("resume_steps", ()))
    execute.last_params = params
    execute.last_opt = opt
    for t in range(run["T"]):
        for e in [e for e in edits if e[0] == t]:
            if e[2] == "momentum" and mon.h[e[1]]["momentum"] == 0.0:
                continue
            opt.param_groups[e[1]][e[2]] = e[3]
        for j, p in enumerate(params):
            p.grad = G.grad_for(torch, gg, p.shape, dt, run["grad_kind"], run["grad_scale"] * (1 + j)) if run["presence"][t][j] else None
        mon.pre()
        if t in closure_steps:
            # step(closure): the gradients exist only once the closure has run (they are taken away after the monitor has
            # seen them and handed back by the closure), and the closure's value is what step() returns
            stash = [p.grad for p in params]
            for p in params:
                p.grad = None
            calls = []

            def closure():
                calls.append(torch.is_grad_enabled())
                for p, g in zip(params, stash):
                    p.grad = g
                return 0.25 + t

            out = opt.step(closure)
            counters["closure_steps"] = counters.get("closure_steps", 0) + 1
            if calls != [True] or out != 0.25 + t:
                raise Violation("step(closure) did not evaluate the closure exactly once with gradients enabled and return its value", {"step": t, "calls": calls, "returned": repr(out)})
        else:
            opt.step()
        mon.post()
        if t in resume_steps and t + 1 < run["T"]:
            # the run continues on a freshly constructed optimizer that loaded the checkpoint (documented API): the monitor keeps
            # judging every step against the documented recurrence, so state that lives outside the checkpoint shows up here
            names = [(f"p{i}", p) for i, p in enumerate(params)]
            buf = io.BytesIO()
            torch.save(opt.distributed_state_dict(key_to_param=iter(names)), buf)
            opt = G.build_optimizer(ds, torch, cfg, params, run["groups"])
            opt.load_distributed_state_dict(torch.load(io.BytesIO(buf.getvalue()), weights_only=False), key_to_param=iter(names))
            for e in [e for e in edits if e[0] <= t]:
                if not (e[2] == "momentum" and mon.h[e[1]]["momentum"] == 0.0):
                    opt.param_groups[e[1]][e[2]] = e[3]
            mon.opt = opt
            execute.last_opt = opt
            counters["resumed_from_checkpoint"] = counters.get("resumed_from_checkpoint", 0) + 1
        if on_step:
            on_step(t, opt, params, mon)
    return opt, params, mon


def signature(run, counters):
    cfg = run["cfg"]
    return [cfg["precond"]["kind"], cfg["precond"]["solver"]["type"], (cfg["grafting"] or {}).get("type", "none"), cfg["weight_decay"] > 0, cfg["use_decoupled_weight_decay"], cfg["momentum"] > 0, cfg["use_nesterov"], cfg["dampening"] > 0, cfg["use_bias_correction"], cfg["beta3"] not in (-1.0, cfg["betas"][0]), cfg["betas"][0] > 0, sorted({len(s) for s in run["shapes"]}), cfg["param_dtype"], cfg["preconditioner_dtype"], len(run["groups"] or [1]), counters.get("absent_block_steps", 0) > 0, len(run["edits"]) > 0]


def run_case(case):
    run = make_run(case)
    counters = {}
    from ..common import KernelObserver

    obs = KernelObserver()
    try:
        with obs:
            execute(run, case["seed"], counters)
    except OutOfDomain:
        counters["aborted_direction_overflows_dtype"] = 1
    except Violation as v:
        v.witness.setdefault("run", {k: run[k] for k in ("cfg", "shapes", "groups", "T", "presence_kind", "edits", "grad_scale", "grad_kind")})
        raise
    except Exception as e:  # noqa
        why = classify_abort(e, run, obs)
        if why is None:
            raise
        counters[why] = 1
    counters["evals"] = counters.get("block_steps", 0)
    nontrivial = counters.get("refreshes", 0) >= 1 and counters.get("precond_block_steps", 0) >= 1
    return {"counters": counters, "sigs": [signature(run, counters)] if nontrivial else [], "sample": {"cfg": run["cfg"], "shapes": run["shapes"], "groups": run["groups"], "T": run["T"], "presence_kind": run["presence_kind"], "edits": run["edits"]}}


def classify(case, witness):
    return None


def conclusive(agg, results, tier):
    need = {"block_steps": 2000, "refreshes": 200, "root_checks": 100, "warmup_block_steps": 100, "precond_block_steps": 500, "absent_block_steps": 50, "mask_changes": 20}
    low = {k: agg.get(k, 0) for k in need if agg.get(k, 0) < need[k]}
    return f"too few observations: {low}" if low else None
