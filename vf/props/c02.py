"""C02 - warm-up equals the grafted torch.optim optimizer; later its step norm is kept.

Real code: DistributedShampoo with SGD/AdaGrad/RMSprop/Adam(W) grafting, side by side with torch.optim.{SGD,Adagrad,RMSprop,Adam,AdamW}.
Oracle: (a) differential per warm-up step with a cumulative-displacement rounding bound; (b) from start_preconditioning_step on,
per block: ||delta W|| equals the norm of the torch twin's update on the same index set (the grafted method's direction for
the same gradient history) and delta W is anti-parallel to the Shampoo direction built from the stored roots."""
from __future__ import annotations

import math

from ..common import Inconclusive, OutOfDomain, Violation, import_repo, rng_for, tgen, u_eff

ID = "C02"
LEVEL = "exploration"
RULE = (
    "one case = one run of Shampoo next to its torch.optim twin: target in {SGD(+momentum/Nesterov), Adagrad, RMSprop(+momentum), Adam, AdamW}, coupled/decoupled "
    "decay, 1-4 parameters of order 0..4 blocked/merged in all ways (max_preconditioner_dim down to 1), warm-up length 1..30, float32/float64, presence patterns "
    "(arbitrary for SGD/Adagrad/RMSprop; always/never-present parameters and all-absent steps for Adam/AdamW); norm-transfer runs (momentum 0, decay 0) continue "
    ">=3 steps past start. Every compared (step, parameter) resp. (step, block) is one evaluation. Non-trivial: >=3 warm-up steps compared or >=2 post-start steps "
    "with a non-degenerate Shampoo direction. Distinct by (target, phase, blocked, merged, orders, decay mode, momentum flags, presence class, dtype)."
)
ASSUMPTIONS = [
    "mappings use dampening=0, amsgrad=False, centered=False, lr_decay=0, maximize=False, beta3=-1 (the range where both formulations are mathematically identical)",
    "Adam/AdamW presence patterns keep each parameter's update count equal to the group's step count",
    "warm-up bound: |p-q| <= 64*2^-24*(|q| + cumulative |displacement|)*kappa elementwise (float32 scalar floor also for float64 runs)",
    "norm transfer is judged on runs with momentum=0 and weight_decay=0, where the twin's update IS the grafted direction for the shared gradient history; blocks whose Shampoo direction norm is < 1e-10 are counted trivial",
]
TIMEOUT = {"quick": 1200, "thorough": 5400}
ANCHORS = {
    "distributed_shampoo/distributed_shampoo.py": ["DistributedShampoo._precondition_and_grafting", "DistributedShampoo._instantiate_grafting"],
    "distributed_shampoo/utils/shampoo_preconditioner_list.py": ["AdagradPreconditionerList.update_preconditioners", "AdagradPreconditionerList.precondition", "SGDPreconditionerList.precondition"],
}
TARGETS = ["sgd", "adagrad", "rmsprop", "adam", "adamw"]


def gen_cases(tier, seed):
    n = 60 if tier == "quick" else 900
    cases = []
    for tg in TARGETS:
        for i in range(n):
            cases.append({"id": f"{tg}_{i}", "target": tg, "phase": "warmup" if i % 3 else "norm", "seed": [seed, tg, i]})
    return cases


def _setup(case, ds, torch):
    from .. import gen as G

    rnd = rng_for(*case["seed"])
    tg = case["target"]
    norm_phase = case["phase"] == "norm"
    dt = rnd.choice(["float32", "float32", "float64"])
    gs = rnd.choice([1e-2, 1.0, 1.0, 10.0])
    shapes = G.rand_shapes(rnd, max_order=4, max_numel=250)
    lr = rnd.choice([0.003, 0.02, 0.1])
    b1 = rnd.choice([0.8, 0.87, 0.9])
    g2 = rnd.choice([0.93, 0.97, 0.985])
    geps = rnd.choice([1e-3, 1e-6, 1e-8]) * gs
    wd = 0.0 if norm_phase else rnd.choice([0.0, 0.03, 0.011])
    mom = 0.0 if norm_phase else rnd.choice([0.0, 0.5, 0.7])
    nesterov = mom > 0 and rnd.random() < 0.5
    warm = rnd.randint(1, 8) if norm_phase else rnd.randint(1, 30)
    post = rnd.randint(3, 6) if norm_phase else 0
    freq = rnd.choice([1, 1, 2, 3])
    start = max(warm + 1, freq)
    soap = norm_phase and rnd.random() < 0.25
    cfg = {
        "lr": lr, "betas": [0.0, rnd.choice([1.0, 0.999, 0.95])], "beta3": -1.0, "epsilon": gs * gs * rnd.choice([1e-1, 1e-2, 1e-3]), "momentum": mom, "dampening": 0.0,
        "weight_decay": wd, "max_preconditioner_dim": rnd.choice([1, 2, 3, 4, 5, 8, 1024]), "precondition_frequency": freq, "start_preconditioning_step": start,
        "inv_root_override": 0, "use_nesterov": nesterov, "use_bias_correction": True, "use_decoupled_weight_decay": False, "grafting": None,
        "use_merge_dims": rnd.random() < 0.6, "preconditioner_dtype": dt, "param_dtype": dt,
        "precond": {"kind": "soap" if soap else "shampoo", "ignored_dims": [], "num_tolerated": 3, "solver": {"type": "eigh"} if soap else {"type": "eigen", "enhance_stability": False, "exponent_multiplier": 1.0}},
    }
    while sum(G.n_blocks(s, cfg["max_preconditioner_dim"], cfg["use_merge_dims"]) for s in shapes) > 40:
        cfg["max_preconditioner_dim"] = {1: 2, 2: 3, 3: 4, 4: 5, 5: 8, 8: 1024}[cfg["max_preconditioner_dim"]]
    D = getattr(torch, dt)
    init = G.make_params(torch, shapes, D, tgen(*case["seed"], "init"), scale=gs)
    A = [torch.nn.Parameter(p.detach().clone()) for p in init]
    B = [torch.nn.Parameter(p.detach().clone()) for p in init]
    if tg == "sgd":
        cfg.update(grafting={"type": "sgd"})
        twin = torch.optim.SGD(B, lr=lr, momentum=mom, nesterov=nesterov, weight_decay=wd)
    elif tg == "adagrad":
        cfg.update(grafting={"type": "adagrad", "epsilon": geps}, momentum=0.0, use_nesterov=False)
        twin = torch.optim.Adagrad(B, lr=lr, eps=geps, weight_decay=wd)
    elif tg == "rmsprop":
        cfg.update(grafting={"type": "rmsprop", "epsilon": geps, "beta2": g2}, use_nesterov=False, use_bias_correction=rnd.random() < 0.5)
        twin = torch.optim.RMSprop(B, lr=lr, alpha=g2, eps=geps, momentum=mom, weight_decay=wd)
    else:
        cfg.update(grafting={"type": "adam", "epsilon": geps, "beta2": g2}, momentum=0.0, use_nesterov=False, betas=[b1, cfg["betas"][1]], use_decoupled_weight_decay=(tg == "adamw"))
        twin = (torch.optim.AdamW if tg == "adamw" else torch.optim.Adam)(B, lr=lr, betas=(b1, g2), eps=geps, weight_decay=wd)
    T = warm + post
    groups = None
    if not norm_phase and len(shapes) >= 2 and rnd.random() < 0.35:
        cut = rnd.randint(1, len(shapes) - 1)
        lr2 = rnd.choice([0.05, 0.007])
        groups = [{"params": list(range(0, cut)), "overrides": {}}, {"params": list(range(cut, len(shapes))), "overrides": {"lr": lr2}}]
        tw_groups = [{"params": B[:cut]}, {"params": B[cut:], "lr": lr2}]
        twin = type(twin)(tw_groups, **{k: v for k, v in twin.defaults.items() if k in ("lr", "momentum", "nesterov", "weight_decay", "eps", "alpha", "betas", "dampening")})
    if tg in ("adam", "adamw"):
        pk, pres = G.rand_presence(rnd, len(shapes), T, kind=rnd.choice(["all", "never_one", "all_absent_steps"]))
    else:
        pk, pres = G.rand_presence(rnd, len(shapes), T)
    if norm_phase:
        pk, pres = "all", [[True] * len(shapes) for _ in range(T)]
    if groups is not None and rnd.random() < 0.7:
        # steps in which the FIRST group has no gradient at all while the second one has
        if tg in ("adam", "adamw"):
            pres = [[True] * len(shapes) for _ in range(T)]  # keep every parameter's update count equal to its group's step count
        pk = "first_group_absent_steps"
        for t in rnd.sample(range(T), max(1, T // 3)):
            for j in groups[0]["params"]:
                pres[t][j] = False
            for j in groups[1]["params"]:
                pres[t][j] = True
    opt = G.build_optimizer(ds, torch, cfg, A, groups)
    return dict(groups=groups, cfg=cfg, shapes=shapes, A=A, B=B, opt=opt, twin=twin, T=T, warm=warm, start=start, presence=pres, presence_kind=pk, gs=gs, dt=D, g2=g2, b1=b1, grad_kind=rnd.choice(["dense", "dense", "lowrank", "sparse"]))


def run_case(case):
    ds = import_repo()
    import torch

    from .. import gen as G
    from ..ref import bc_relerr, mode_apply

    S = _setup(case, ds, torch)
    cfg, A, B, opt, twin = S["cfg"], S["A"], S["B"], S["opt"], S["twin"]
    tg = case["target"]
    D64 = torch.float64
    counters = {"evals": 0, "warmup_steps_compared": 0, "norm_blocks_compared": 0, "norm_blocks_trivial": 0, "cos_blocks_compared": 0, "max_ratio_warmup": 0.0, "max_ratio_norm": 0.0, "max_ratio_cos": 0.0}
    gg = tgen(*case["seed"], "grads")
    disp = [torch.zeros_like(q, dtype=D64) for q in B]
    desc = {"target": tg, "phase": case["phase"], "cfg": cfg, "shapes": S["shapes"], "warmup_steps": S["warm"], "presence_kind": S["presence_kind"]}
    ue = u_eff(S["dt"])
    # block geometry for the norm-transfer phase
    blocks = None
    if case["phase"] == "norm":
        from distributed_shampoo.utils.shampoo_distributor import Distributor

        try:
            dist = Distributor(opt.param_groups[0])
        except Exception as e:  # noqa
            raise Inconclusive(f"Distributor not usable for block geometry: {e}")
        blocks = []
        for v, bi in zip(dist.local_blocked_params, dist.local_block_info_list):
            pi = next(i for i, p in enumerate(A) if p is bi.param)
            blocks.append((pi, bi.composable_block_ids[1], tuple(v.shape), tuple(v.stride()), v.storage_offset() - bi.param.storage_offset()))
    t_group = 0
    gidx = [0] * len(A)
    if S["groups"]:
        for gi, g in enumerate(S["groups"]):
            for j in g["params"]:
                gidx[j] = gi
    t_groups = [0] * (len(S["groups"]) if S["groups"] else 1)
    for t in range(S["T"]):
        grads = []
        for j, p in enumerate(A):
            g = G.grad_for(torch, gg, p.shape, S["dt"], S["grad_kind"], S["gs"] * (1 + j)) if S["presence"][t][j] else None
            grads.append(g)
            A[j].grad = None if g is None else g.clone()
            B[j].grad = None if g is None else g.clone()
        for gi in range(len(t_groups)):
            if any(grads[j] is not None for j in range(len(A)) if gidx[j] == gi):
                t_groups[gi] += 1
        t_group = max(t_groups)
        a_old = [p.detach().to(D64).clone() for p in A]
        b_old = [q.detach().to(D64).clone() for q in B]
        opt.step()
        twin.step()
        kappa = 1.0
        if tg in ("adam", "adamw") and min(t_groups) >= 1:
            kappa += max((bc_relerr(S["b1"], tt) + bc_relerr(S["g2"], tt)) / 2.0**-24 for tt in t_groups)
        elif tg in ("adam", "adamw") and t_group >= 1:
            kappa += (bc_relerr(S["b1"], 1) + bc_relerr(S["g2"], 1)) / 2.0**-24
        if tg == "rmsprop" and cfg["use_bias_correction"]:
            pass  # RMSprop grafting never applies a bias correction
        if t_group < S["start"]:
            # ---- (a) warm-up: same trajectory as torch.optim
            for j, (p, q) in enumerate(zip(A, B)):
                disp[j] += (q.detach().to(D64) - b_old[j]).abs()
                tol = 64 * ue * kappa * (q.detach().to(D64).abs() + disp[j]) + 1e-300
                r = float(((p.detach().to(D64) - q.detach().to(D64)).abs() / tol).max()) if p.numel() else 0.0
                counters["max_ratio_warmup"] = max(counters["max_ratio_warmup"], r)
                counters["evals"] += 1
                if not r <= 1.0:
                    k = int(((p.detach().to(D64) - q.detach().to(D64)).abs() / tol).argmax())
                    raise Violation(f"warm-up step {t + 1}: parameter {j} deviates from torch.optim.{type(twin).__name__} (deviation/tolerance {r:.3g})", step=t + 1, param=j, shampoo=float(p.detach().flatten()[k]), torch_optim=float(q.detach().flatten()[k]), **desc)
            counters["warmup_steps_compared"] += 1
        elif blocks is not None:
            # ---- (b) norm transfer: per block ||dW|| == ||twin's update|| on the same index set; dW anti-parallel to Shampoo's direction
            for pi, key, shp, st, off in blocks:
                if grads[pi] is None:
                    continue
                dA = torch.as_strided(A[pi].detach().to(D64) - a_old[pi], shp, st, off) if len(S["shapes"][pi]) or True else None
                dB = torch.as_strided(B[pi].detach().to(D64) - b_old[pi], shp, st, off)
                nA, nB = float(dA.norm()), float(dB.norm())
                stt = opt.state[A[pi]][key]
                sh = stt["shampoo"]
                ghat = torch.as_strided(grads[pi].to(D64), shp, st, off)
                if tg in ("adam", "adamw"):
                    m = stt["filtered_grad"].to(D64)
                    ghat = m / (1 - S["b1"] ** t_group)
                Sdir = None
                if cfg["precond"]["kind"] == "shampoo":
                    Xs = [x.to(D64) for x in sh.inv_factor_matrices]
                    sel = (True,) * len(shp)
                    Sdir = mode_apply(torch, ghat, Xs, sel)
                    sS = mode_apply(torch, ghat.abs(), [x.abs() for x in Xs], sel)
                    if float(ghat.norm()) == 0.0:
                        counters["norm_blocks_trivial"] += 1
                        continue
                    if float(Sdir.norm()) < 1e-10 * max(1.0, float(ghat.norm())):
                        # a vanishing Shampoo direction for a non-zero gradient (e.g. roots that were never computed) cannot be
                        # judged for its direction, but the block must still move by the grafted norm
                        Sdir = None
                if nB == 0.0 and nA == 0.0:
                    counters["norm_blocks_trivial"] += 1
                    continue
                tol = 256 * ue * kappa * (len(shp) + 2)
                # the update is only observable as W_new - W_old: rounding of the parameter itself limits its resolution
                ud = float(torch.finfo(S["dt"]).eps)
                wA = float(torch.as_strided(a_old[pi], shp, st, off).norm()) + nA
                wB = float(torch.as_strided(b_old[pi], shp, st, off).norm()) + nB
                resol = 2 * ud * (wA + wB)
                r = abs(nA - nB) / (tol * max(nB, 1e-300) + resol)
                counters["norm_blocks_compared"] += 1
                counters["evals"] += 1
                counters["max_ratio_norm"] = max(counters["max_ratio_norm"], r)
                if not r <= 1.0:
                    raise Violation(f"step {t_group} >= start {S['start']}: block {key} of parameter {pi} moved by norm {nA:.6g}, the grafted {type(twin).__name__} direction for that block has norm {nB:.6g}", step=t_group, param=pi, block=key, **desc)
                if Sdir is not None:
                    # direction: dW / ||dW|| == -S / ||S|| up to the rounding of the mode products
                    e = (dA / nA + Sdir / Sdir.norm()).norm()
                    tolc = 256 * ue * kappa * float(sS.norm() / Sdir.norm()) * (len(shp) + 2) + 4 * ud * wA / nA
                    counters["cos_blocks_compared"] += 1
                    counters["max_ratio_cos"] = max(counters["max_ratio_cos"], float(e) / tolc)
                    if float(e) > tolc and tolc < 0.1:
                        raise Violation(f"step {t_group}: update of block {key} of parameter {pi} is not parallel to the Shampoo direction (|u + s| = {float(e):.3g}, tolerance {tolc:.3g})", step=t_group, param=pi, block=key, **desc)
    nontrivial = counters["warmup_steps_compared"] >= 3 or counters["norm_blocks_compared"] >= 2
    blocked = any(G.n_blocks(s, cfg["max_preconditioner_dim"], cfg["use_merge_dims"]) > 1 for s in S["shapes"])
    sig = [bool(S["groups"]), tg, case["phase"], blocked, cfg["use_merge_dims"], sorted({len(s) for s in S["shapes"]}), cfg["weight_decay"] > 0, cfg["momentum"] > 0, cfg["use_nesterov"], S["presence_kind"], cfg["param_dtype"], cfg["precond"]["kind"]]
    return {"counters": counters, "sigs": [sig] if nontrivial else [], "sample": {"target": tg, "phase": case["phase"], "shapes": S["shapes"], "max_preconditioner_dim": cfg["max_preconditioner_dim"], "use_merge_dims": cfg["use_merge_dims"], "warmup_steps": S["warm"], "presence_kind": S["presence_kind"], "dtype": cfg["param_dtype"]}}


def conclusive(agg, results, tier):
    need = {"warmup_steps_compared": 500, "norm_blocks_compared": 300, "cos_blocks_compared": 150}
    low = {k: agg.get(k, 0) for k in need if agg.get(k, 0) < need[k]}
    return f"too few observations: {low}" if low else None
