"""C03 - eigenvalue-corrected Shampoo (SOAP) is Adam run in a valid factor eigenbasis.

Real code: DistributedShampoo with EigenvalueCorrectedShampooPreconditionerConfig (eigh / QR), serial.
Oracle: basis-validity invariants on the stored state at every refresh (orthonormal; eigh: diagonalises the accumulated factor;
QR: orthogonal-iteration update of the previous basis - backward check for one iteration, gap-aware cluster match otherwise;
bitwise unchanged off-schedule / without gradient) + the step-locked rotated-Adam reference (vf/ref.py)."""
from __future__ import annotations

from ..common import KernelObserver, OutOfDomain, Violation, import_repo, rng_for
from . import c01

ID = "C03"
LEVEL = "exploration"
RULE = (
    "one case = one SOAP run: eigh or QR (max_iterations 1..5, tolerance 0/1e-5/1e-2), every dtype pairing incl. bfloat16 parameters with float32 factors, "
    "beta2<1 and =1, epsilon, inv_root_override, every ignored-dims subset, grafting on/off, momentum/decay, blocks of order 1..4, low-rank/sparse gradients "
    "(rank-deficient early factors), absent gradients, 6-20 steps; every (step, block) with a gradient is one evaluation. Non-trivial: >=2 refreshes whose "
    "previous basis was non-zero. Distinct by (method, dtype pair, beta2 class, ignored set, orders, grafting, gradient kind)."
)
ASSUMPTIONS = c01.ASSUMPTIONS + [
    "a factor that has always been exactly diagonal may yield the identity basis (documented fast path, C12)",
    "QR bases are compared by spectral-cluster projectors where the float64 reference is itself insensitive to rounding-level noise; a single QR iteration is additionally judged by the backward-stability check",
]
TIMEOUT = {"quick": 1200, "thorough": 5400}
ANCHORS = {
    "distributed_shampoo/utils/shampoo_preconditioner_list.py": ["EigenvalueCorrectedShampooPreconditionerList.update_preconditioners", "EigenvalueCorrectedShampooPreconditionerList._update_eigenvalue_corrections", "EigenvalueCorrectedShampooPreconditionerList._amortized_computation", "EigenvalueCorrectedShampooPreconditionerList.precondition"],
    "matrix_functions.py": ["matrix_eigenvectors", "_compute_orthogonal_iterations"],
}


def gen_cases(tier, seed):
    n = 240 if tier == "quick" else 4000
    return [{"id": f"run{i}", "seed": [seed, i]} for i in range(n)]


def make_run(case):
    from .. import gen as G

    rnd = rng_for(*case["seed"], "c03")
    gs = rnd.choice([1e-3, 1.0, 1.0, 1e3])
    pair = rnd.choice([("float32", "float32"), ("float64", "float64"), ("float32", "float64"), ("float64", "float32"), ("bfloat16", "float32"), ("bfloat16", "float32")])
    cfg = G.rand_config(rnd, grad_scale=gs, precond_kind="soap", allow_ignored=False, dtype_pair=pair, well_conditioned=rnd.random() < 0.8)
    cfg["betas"][1] = rnd.choice([1.0, 0.95, 0.99, 0.999])
    order_max = rnd.choice([1, 2, 2, 3, 4])
    shapes = G.rand_shapes(rnd, n_params=rnd.randint(1, 3), max_order=order_max, max_numel=250, min_order=1)
    if rnd.random() < 0.45:
        k = rnd.randint(1, order_max)
        cfg["precond"]["ignored_dims"] = sorted(rnd.sample(range(order_max), k))
        cfg["inv_root_override"] = 0
        cfg["use_merge_dims"] = rnd.random() < 0.3
    while sum(G.n_blocks(s, cfg["max_preconditioner_dim"], cfg["use_merge_dims"]) for s in shapes) > 12:
        cfg["max_preconditioner_dim"] = {1: 2, 2: 3, 3: 4, 4: 5, 5: 8, 8: 1024, 1024: 1024}[cfg["max_preconditioner_dim"]]
        if cfg["max_preconditioner_dim"] == 1024:
            shapes = shapes[:1]
            break
    # several refreshes inside the run
    cfg["precondition_frequency"] = rnd.choice([1, 1, 2, 3])
    cfg["start_preconditioning_step"] = rnd.choice([-1, cfg["precondition_frequency"], cfg["precondition_frequency"] + 1])
    T = rnd.randint(6, 20)
    pk, presence = G.rand_presence(rnd, len(shapes), T)
    edits = G.rand_schedule(rnd, T, 1, cfg)
    resume_steps = sorted(rnd.sample(range(T), rnd.randint(1, 2))) if rnd.random() < 0.3 else []
    return {"cfg": cfg, "shapes": shapes, "groups": None, "T": T, "presence_kind": pk, "presence": presence, "edits": edits, "resume_steps": resume_steps, "grad_scale": gs, "grad_kind": rnd.choice(["dense", "lowrank", "lowrank", "sparse"])}


def run_case(case):
    run = make_run(case)
    counters = {}
    obs = KernelObserver()
    try:
        with obs:
            c01.execute(run, case["seed"], counters)
    except OutOfDomain:
        counters["aborted_direction_overflows_dtype"] = 1
    except Violation as v:
        v.witness.setdefault("run", {k: run[k] for k in ("cfg", "shapes", "T", "presence_kind", "edits", "grad_scale", "grad_kind")})
        raise
    except Exception as e:  # noqa
        why = c01.classify_abort(e, run, obs)
        if why is None:
            raise
        counters[why] = 1
    counters["evals"] = counters.get("block_steps", 0)
    cfg = run["cfg"]
    nontrivial = counters.get("basis_qr_matched", 0) >= 2 or (cfg["precond"]["solver"]["type"] == "eigh" and counters.get("basis_checks", 0) >= 3)
    sig = [cfg["precond"]["solver"]["type"], cfg["param_dtype"], cfg["preconditioner_dtype"], cfg["betas"][1] < 1.0, cfg["precond"]["ignored_dims"], sorted({len(s) for s in run["shapes"]}), (cfg["grafting"] or {}).get("type", "none"), run["grad_kind"]]
    return {"counters": counters, "sigs": [sig] if nontrivial else [], "sample": {"cfg": cfg, "shapes": run["shapes"], "T": run["T"], "presence_kind": run["presence_kind"], "grad_kind": run["grad_kind"]}}


def conclusive(agg, results, tier):
    need = {"basis_checks": 1500, "basis_qr_matched": 300, "basis_qr_backward": 100, "rot_adam_checks": 3000, "absent_block_steps": 100}
    low = {k: agg.get(k, 0) for k in need if agg.get(k, 0) < need[k]}
    return f"too few observations: {low}" if low else None
