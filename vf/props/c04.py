"""C04 - parameters without a gradient are untouched and never cross-wire state.

Real code: DistributedShampoo.step() under changing gradient-presence masks, groups of equal-shaped parameters/blocks.
Oracle: (a) bit-level shadow snapshot of every absent parameter and all of its state tensors + group step counter;
(b) the step-locked reference keyed by (parameter, block key): each present block must follow from ITS OWN previous state."""
from __future__ import annotations

import itertools

from ..common import OutOfDomain, Violation, import_repo, rng_for
from . import c01

ID = "C04"
LEVEL = "exploration"
RULE = (
    "groups of 2-5 equal-shaped parameters (optionally blocked into several equal-shaped blocks) fed gradients of pairwise distinct scales; exhaustive family: "
    "every sequence of 3 presence masks over k=2 (64) and k=3 (512) parameters followed by two all-present steps, for several configurations; random family: "
    "random walks, toggling, never-present parameters, all-absent steps, bursts over 6-20 steps; every (step, block) is one evaluation. Non-trivial: >=2 mask "
    "changes and >=1 block re-entering after absence. Distinct by (mask-sequence, features on) resp. (presence kind, features on, #params)."
)
ASSUMPTIONS = c01.ASSUMPTIONS + ["equal-shaped parameters so that a misaligned state list raises no shape error"]
EXHAUSTIVE = {"quick": "all 3-step mask sequences for k=2 parameters (64) per configuration", "thorough": "all 3-step mask sequences for k=2 (64) and k=3 (512) parameters per configuration"}
TIMEOUT = {"quick": 1200, "thorough": 5400}
CONFIRM_BY_RERUN = True  # ranks are threads here: an alarm must reproduce in a fresh process (vf/main.py)
ANCHORS = {
    "distributed_shampoo/distributed_shampoo.py": ["DistributedShampoo._mask_state_lists", "DistributedShampoo.step"],
    "distributed_shampoo/utils/shampoo_distributor.py": ["DistributorInterface._merge_and_block_gradients", "Distributor.merge_and_block_gradients"],
    "distributed_shampoo/utils/shampoo_preconditioner_list.py": ["BaseShampooPreconditionerList.compress_preconditioner_list", "AdagradPreconditionerList.compress_preconditioner_list"],
}


def gen_cases(tier, seed):
    cases = []
    n_cfg2, n_cfg3 = (6, 1) if tier == "quick" else (40, 8)
    seqs2 = list(itertools.product(range(4), repeat=3))
    seqs3 = list(itertools.product(range(8), repeat=3))
    for c in range(n_cfg2):
        for i in range(0, len(seqs2), 16):
            cases.append({"id": f"ex2_c{c}_{i // 16}", "family": "exh", "k": 2, "cfg_seed": [seed, "k2", c], "masks": [list(s) for s in seqs2[i : i + 16]]})
    if tier == "thorough":
        for c in range(n_cfg3):
            for i in range(0, len(seqs3), 32):
                cases.append({"id": f"ex3_c{c}_{i // 32}", "family": "exh", "k": 3, "cfg_seed": [seed, "k3", c], "masks": [list(s) for s in seqs3[i : i + 32]]})
    else:
        rnd = rng_for(seed, ID, "k3sample")
        pick = rnd.sample(seqs3, 96)
        for i in range(0, 96, 16):
            cases.append({"id": f"ex3s_{i // 16}", "family": "exh", "k": 3, "cfg_seed": [seed, "k3", 0], "masks": [list(s) for s in pick[i : i + 16]]})
    for i in range(160 if tier == "quick" else 2500):
        cases.append({"id": f"rnd{i}", "family": "rnd", "seed": [seed, "rnd", i]})
    for i in range(60 if tier == "quick" else 600):
        cases.append({"id": f"ddp{i}", "family": "ddp", "seed": [seed, "c04ddp", i], "interleavings": 1, "backend": "threaded"})
    for i in range(120 if tier == "quick" else 800):
        cases.append({"id": f"shard{i}", "family": "sharded", "mode": ("hsdp", "hybrid")[i % 2], "seed": [seed, "c04shard", i], "interleavings": 1})
    return cases


def _base(rnd, k):
    from .. import gen as G

    gs = rnd.choice([1e-2, 1.0, 1.0, 30.0])
    cfg = G.rand_config(rnd, grad_scale=gs, well_conditioned=True, allow_iterative=rnd.random() < 0.2)
    order = rnd.choice([0, 1, 1, 2, 2, 3])
    shape = [rnd.choice([2, 3, 4, 5]) for _ in range(order)]
    # blocks: either one block per parameter or a few equal-shaped blocks
    if order and rnd.random() < 0.4:
        cfg["max_preconditioner_dim"] = rnd.choice([d for d in {2, 3, 4, 5} if any(s % d == 0 and s // d in (1, 2) for s in shape)] or [1024])
        cfg["use_merge_dims"] = False
    else:
        cfg["max_preconditioner_dim"] = 1024
    shapes = [list(shape) for _ in range(k)]
    G.stabilise_iterative(cfg, shapes + [[5, 5]], gs)
    while sum(G.n_blocks(s, cfg["max_preconditioner_dim"], cfg["use_merge_dims"]) for s in shapes) > 16:
        cfg["max_preconditioner_dim"] = 1024
    return cfg, shapes, gs


def _features(cfg):
    return [cfg["precond"]["kind"], (cfg["grafting"] or {}).get("type", "none"), cfg["betas"][0] > 0, cfg["momentum"] > 0, cfg["max_preconditioner_dim"] < 1024]


def run_case(case):
    from .. import gen as G
    from ..common import KernelObserver

    if case["family"] == "ddp":
        # the DDP distributor keeps its own masked lists: same shadow check on every simulated rank (worlds shared with C06)
        from . import c06

        try:
            out = c06.run_case(case)
        except Violation as v:
            # C06's known finding (0-D 16-bit parameter vs serial) says nothing about absent gradients: keep the shadow results
            # and a difference from the serial optimizer at ROUNDING level is C06's subject, not this property's (mis-wired state or
            # a touched absent parameter shows as an O(1) relative difference or as an absent_changed violation)
            rounding_only = v.witness.get("kind") in ("serial_mismatch", "owner_update", "rounding_model") and v.witness.get("max_rel_diff", 1.0) < 1e-4
            if v.witness.get("kind") != "zero_dim_update_wider_than_comm" and not rounding_only:
                raise
            if not getattr(v, "partial", None):
                raise
            out = {"counters": v.partial["counters"], "sigs": [], "sample": {"note": "left to C06 (" + str(v.witness.get("kind")) + "); absent-parameter shadow still evaluated"}}
            if rounding_only:
                out["counters"]["ddp_rounding_level_mismatch_left_to_C06"] = 1
        c = out["counters"]
        c["ddp_absent_params_checked"] = c.pop("absent_params_checked", 0)
        c["ddp_worlds"] = c.pop("evals", 0)
        c["evals"] = c["ddp_absent_params_checked"]
        c.pop("set_interleavings", None)
        return {"counters": c, "sigs": [["ddp"] + s_ for s_ in out["sigs"]] if c["ddp_absent_params_checked"] else [], "sample": out["sample"]}

    if case["family"] == "sharded":
        # HSDP / HybridShard keep rank-global masked lists of their own: absent shards must stay bit-identical and present ones
        # must follow their own serial twin on every simulated rank (worlds shared with C07 / C08)
        from . import c07

        out = c07.run_sharded(case, ID)
        c = out["counters"]
        c["sharded_worlds"] = c.pop("evals", 0)
        c["sharded_shards_compared"] = c.pop("shards_compared", 0)
        c["evals"] = c["sharded_shards_compared"]
        c.pop("set_interleavings", None)
        return {"counters": c, "sigs": [["sharded"] + s_ for s_ in out["sigs"]], "sample": out["sample"]}

    counters = {}
    sigs = []
    sample = None
    runs = []
    if case["family"] == "exh":
        rnd = rng_for(*case["cfg_seed"])
        cfg, shapes, gs = _base(rnd, case["k"])
        gk = rnd.choice(["dense", "dense", "sparse"])
        for seq in case["masks"]:
            pres = [[True] * case["k"]] + [[bool(m >> j & 1) for j in range(case["k"])] for m in seq] + [[True] * case["k"]] * 2
            runs.append(({"cfg": cfg, "shapes": shapes, "groups": None, "T": len(pres), "presence_kind": "exhaustive", "presence": pres, "edits": [], "grad_scale": gs, "grad_kind": gk}, case["cfg_seed"] + [str(seq)], ("seq", tuple(seq))))
    else:
        rnd = rng_for(*case["seed"])
        k = rnd.randint(2, 5)
        cfg, shapes, gs = _base(rnd, k)
        if rnd.random() < 0.3:
            shapes.append(G.rand_shapes(rnd, n_params=1, max_order=2, max_numel=40)[0])
        T = rnd.randint(6, 20)
        pk, pres = G.rand_presence(rnd, len(shapes), T, kind=rnd.choice(["never_one", "toggle", "random", "random", "all_absent_steps", "bursts"]))
        groups = None
        if len(shapes) >= 3 and rnd.random() < 0.3:
            groups = [{"params": list(range(0, 2)), "overrides": {}}, {"params": list(range(2, len(shapes))), "overrides": {"lr": 0.02}}]
        runs.append(({"cfg": cfg, "shapes": shapes, "groups": groups, "T": T, "presence_kind": pk, "presence": pres, "edits": G.rand_schedule(rnd, T, len(groups) if groups else 1, cfg), "grad_scale": gs, "grad_kind": rnd.choice(["dense", "dense", "sparse"])}, case["seed"], ("rnd", pk, len(shapes))))
    for run, sd, tag in runs:
        c = {}
        obs = KernelObserver()
        try:
            with obs:
                c01.execute(run, sd, c)
        except OutOfDomain:
            c["aborted_direction_overflows_dtype"] = 1
        except Violation as v:
            v.witness.setdefault("run", {k: run[k] for k in ("cfg", "shapes", "groups", "T", "presence_kind", "presence", "edits", "grad_scale", "grad_kind")})
            raise
        except Exception as e:  # noqa
            why = c01.classify_abort(e, run, obs)
            if why is None:
                raise
            c[why] = 1
        # re-entry: some parameter absent at step t and present at a later step
        pres = run["presence"]
        reentry = any(not pres[t][j] and any(pres[u][j] for u in range(t + 1, len(pres))) and any(pres[u][j] for u in range(0, t)) for t in range(len(pres)) for j in range(len(pres[0])))
        if c.get("mask_changes", 0) >= 2 and reentry:
            sigs.append([list(map(str, tag)), _features(run["cfg"])])
        for k_, v_ in c.items():
            if k_.startswith("max_"):
                counters[k_] = max(counters.get(k_, 0.0), v_)
            else:
                counters[k_] = counters.get(k_, 0) + v_
        if sample is None:
            sample = {"shapes": run["shapes"], "presence": run["presence"][:6], "features": _features(run["cfg"]), "T": run["T"]}
    counters["evals"] = counters.get("block_steps", 0) + counters.get("absent_block_steps", 0)
    return {"counters": counters, "sigs": sigs, "sample": sample}


def conclusive(agg, results, tier):
    need = {"absent_block_steps": 2000, "block_steps": 3000, "mask_changes": 1000, "all_absent_group_steps": 100, "ddp_absent_params_checked": 200}
    low = {k: agg.get(k, 0) for k in need if agg.get(k, 0) < need[k]}
    return f"too few observations: {low}" if low else None
