"""C05 - blocks tile each parameter exactly; blocking does not change the math.

Real code: Distributor (public constructor), merge_small_dims, multi_dim_split, merge_and_block_gradients, update_params;
DistributedShampoo for the invariance part.
Oracle: storage-level tiling / aliasing invariants; differential blocked tensor vs its blocks as separate parameters."""
from __future__ import annotations

import itertools
import math

from ..blocking import merge_is_legal
from ..common import Inconclusive, Violation, import_repo, rng_for, tgen

ID = "C05"
LEVEL = "exploration"
RULE = (
    "structural family: shapes of order 0..4 with dims in 1..5 x max_preconditioner_dim in {1,2,3,4,5,6,1024} x merge on/off (thorough: all 10934 "
    "combinations; quick: a seeded ~12% sample plus all shapes of order<=2), one Distributor construction = one evaluation; invariance family: generated "
    "optimizer configurations (float64) run on a tensor and, side by side, on clones of its blocks as separate parameters. Non-trivial: >=2 blocks or a "
    "merge happened. Distinct by (shape, limit, merge) resp. (config signature, layout)."
)
ASSUMPTIONS = [
    "contiguous CPU parameters (blocking uses .view)",
    "any merge that fuses only adjacent dims of the squeezed shape with fused product <= limit is legal (maximal/greedy merging is not demanded by the property)",
    "the order in which blocks are listed is not judged; gradient blocks are compared position-by-position with the parameter blocks",
    "invariance runs use float64 and epsilon relative to the gradient scale (condition-aware tolerance 1e-6 relative on per-step deltas)",
]
EXHAUSTIVE = {"thorough": "all shapes of order 0..4 with dims in 1..5 (781) x limits {1,2,3,4,5,6,1024} x merge on/off"}
TIMEOUT = {"quick": 900, "thorough": 3600}
ANCHORS = {
    "distributed_shampoo/utils/shampoo_utils.py": ["merge_small_dims", "multi_dim_split"],
    "distributed_shampoo/utils/shampoo_distributor.py": ["DistributorInterface._merge_and_block_parameters", "DistributorInterface._merge_and_block_gradients", "Distributor.update_params", "Distributor.merge_and_block_gradients"],
}
LIMITS = [1, 2, 3, 4, 5, 6, 1024]


def _all_shapes():
    out = []
    for order in range(0, 5):
        out += [list(s) for s in itertools.product(range(1, 6), repeat=order)]
    return out


def gen_cases(tier, seed):
    rnd = rng_for(seed, ID, tier)
    combos = [(s, L, m) for s in _all_shapes() for L in LIMITS for m in (False, True)]
    if tier == "quick":
        keep = [c for c in combos if len(c[0]) <= 2] + rnd.sample([c for c in combos if len(c[0]) > 2], 1300)
        combos = keep
    cases = []
    chunk = 120
    for i in range(0, len(combos), chunk):
        cases.append({"id": f"struct{i // chunk}", "family": "struct", "combos": [[s, L, m] for s, L, m in combos[i : i + chunk]]})
    # larger / odd shapes, random
    big = []
    for _ in range(60 if tier == "quick" else 600):
        order = rnd.randint(1, 4)
        big.append([[rnd.choice([1, 2, 3, 6, 7, 8, 9, 12, 13]) for _ in range(order)], rnd.choice([1, 2, 3, 4, 5, 7, 8, 16, 1024]), rnd.random() < 0.6])
    for i in range(0, len(big), 30):
        cases.append({"id": f"structbig{i // 30}", "family": "struct", "combos": big[i : i + 30]})
    for i in range(48 if tier == "quick" else 480):
        cases.append({"id": f"inv{i}", "family": "invariance", "seed": [seed, "inv", i]})
    return cases


def _index_set(t, base_ptr, itemsize):
    """storage element offsets (relative to base_ptr) addressed by tensor t"""
    import torch

    off0 = (t.data_ptr() - base_ptr) // itemsize if t.numel() else 0
    idx = torch.zeros(t.shape, dtype=torch.int64)
    for d, (n, st) in enumerate(zip(t.shape, t.stride())):
        shp = [1] * t.dim()
        shp[d] = n
        idx = idx + (torch.arange(n) * st).view(shp)
    return (idx + off0).flatten().tolist()


def _candidates(shape, limit, merge):
    """all legal merged shapes"""
    if not merge:
        return [tuple(shape)]
    sq = [d for d in shape if d != 1] or [1]
    out = set()
    n = len(sq)
    for cuts in itertools.product([0, 1], repeat=max(0, n - 1)):
        groups, cur = [], [sq[0]]
        for c, d in zip(cuts, sq[1:]):
            if c:
                groups.append(cur)
                cur = [d]
            else:
                cur.append(d)
        groups.append(cur)
        m = tuple(math.prod(g) for g in groups)
        if all(len(g) == 1 or math.prod(g) <= limit for g in groups):
            assert merge_is_legal(shape, m, limit)
            out.add(m)
    return sorted(out)


def _fits(blocks_desc, M, limit, numel):
    """Do the blocks (list of (rel_offset, shape, strides)) form a tiling of the row-major tensor of shape M by boxes?"""
    nd = len(M)
    S = [math.prod(M[k + 1 :]) for k in range(nd)]
    seen = 0
    boxes = set()
    for off, shp, st in blocks_desc:
        if len(shp) != nd:
            return False, "block order differs from merged order"
        lo = []
        rem = off
        for k in range(nd):
            lo.append(rem // S[k] if S[k] else 0)
            rem = rem % S[k] if S[k] else 0
        for k in range(nd):
            if shp[k] > limit:
                return False, f"block dim {shp[k]} > limit {limit}"
            if shp[k] > 1 and st[k] != S[k]:
                return False, "block strides are not the strides of the merged row-major view (element order broken)"
            if lo[k] + shp[k] > M[k]:
                return False, "block leaves the merged tensor"
        box = tuple((lo[k], lo[k] + shp[k]) for k in range(nd))
        if box in boxes:
            return False, "duplicate box"
        boxes.add(box)
        seen += math.prod(shp)
    if seen != numel:
        return False, f"blocks cover {seen} elements, tensor has {numel}"
    return True, ""


_defaults = None


def _group_for(ds, torch, params, limit, merge):
    global _defaults
    if _defaults is None:
        p = torch.nn.Parameter(torch.zeros(2))
        opt = ds.DistributedShampoo([p])
        _defaults = {k: v for k, v in opt.param_groups[0].items() if k != "params"}
    g = dict(_defaults)
    g["params"] = list(params)
    g["max_preconditioner_dim"] = limit
    g["use_merge_dims"] = merge
    return g


def _struct(case):
    ds = import_repo()
    import torch
    from distributed_shampoo.utils.shampoo_distributor import Distributor

    counters = {"evals": 0, "multi_block": 0, "merged": 0, "update_params_checked": 0, "grad_blocks_checked": 0}
    sigs = set()
    sample = None
    for shape, limit, merge in case["combos"]:
        shape = tuple(shape)
        numel = math.prod(shape)
        # parameter lives at a non-zero storage offset of a larger buffer, gradient in a different buffer/offset
        buf = torch.zeros(numel + 11)
        p = torch.nn.Parameter(buf[5 : 5 + numel].view(shape))
        q = torch.nn.Parameter(torch.zeros(3))  # a second parameter in the same group
        gbuf = torch.arange(numel + 7, dtype=torch.float32)
        p.grad = gbuf[2 : 2 + numel].view(shape)
        q.grad = torch.ones(3)
        dist = Distributor(_group_for(ds, torch, [p, q], limit, merge))
        counters["evals"] += 1
        blocks = dist.local_blocked_params
        infos = dist.local_block_info_list
        desc = {"shape": list(shape), "max_preconditioner_dim": limit, "use_merge_dims": merge, "block_shapes": [list(b.shape) for b in blocks][:20]}
        if len(blocks) != len(infos):
            raise Violation("block list and block info list differ in length", **desc)
        mine = [b for b, bi in zip(blocks, infos) if bi.param is p]
        base = p.untyped_storage().data_ptr()
        isz = p.element_size()
        p_off = p.storage_offset()
        bd = []
        cover = []
        for b in mine:
            if b.untyped_storage().data_ptr() != base:
                raise Violation("a block is not a view of its parameter's storage", **desc)
            if b.requires_grad:
                raise Violation("a block requires grad", **desc)
            if any(d > limit for d in b.shape):
                raise Violation(f"block of shape {tuple(b.shape)} exceeds max_preconditioner_dim {limit}", **desc)
            idx = _index_set(b, base, isz)
            cover += idx
            bd.append((b.storage_offset() - p_off, tuple(b.shape), tuple(b.stride())))
        if sorted(cover) != list(range(p_off, p_off + numel)):
            raise Violation("blocks do not cover every element of the parameter exactly once", covered=len(cover), distinct=len(set(cover)), numel=numel, **desc)
        ok_any, why_last = False, ""
        for M in _candidates(shape, limit, merge):
            ok, why = _fits(bd, M, limit, numel)
            if ok:
                ok_any = True
                merged = M
                break
            why_last = why
        if not ok_any:
            raise Violation(f"blocks are not boxes of any legally merged row-major view ({why_last})", candidates=[list(m) for m in _candidates(shape, limit, merge)], **desc)
        if len(mine) >= 2:
            counters["multi_block"] += 1
        if merge and tuple(merged) != tuple(shape):
            counters["merged"] += 1
        # gradient blocks cover the same index sets (relative to the gradient's own storage)
        gblocks = dist.merge_and_block_gradients()
        if len(gblocks) != len(blocks):
            raise Violation(f"{len(gblocks)} gradient blocks for {len(blocks)} parameter blocks (all gradients present)", **desc)
        gbase = p.grad.untyped_storage().data_ptr()
        for b, g, bi in zip(blocks, gblocks, infos):
            if bi.param is not p:
                continue
            counters["grad_blocks_checked"] += 1
            if tuple(g.shape) != tuple(b.shape):
                raise Violation("gradient block shape differs from parameter block shape", **desc)
            gi = [i - p.grad.storage_offset() for i in _index_set(g, gbase, p.grad.element_size())] if g.untyped_storage().data_ptr() == gbase else None
            bi_ = [i - p_off for i in _index_set(b, base, isz)]
            if gi is None:
                # a copy is acceptable only if it carries the same elements in the same order
                vals = g.flatten().tolist()
                if vals != [float(2 + i) for i in bi_]:
                    raise Violation("gradient block does not hold the elements of the corresponding parameter block", **desc)
            elif gi != bi_:
                raise Violation("gradient block covers a different index set / order than the corresponding parameter block", **desc)
        # update_params: a distinct constant per block lands on exactly that block's elements
        upd = tuple(torch.full(b.shape, float(i + 1)) for i, b in enumerate(dist.local_masked_blocked_params))
        with torch.no_grad():
            buf.zero_()
        dist.update_params(masked_blocked_search_directions=upd)
        counters["update_params_checked"] += 1
        expect = torch.zeros(numel + 11)
        k = 0
        for i, (b, bi) in enumerate(zip(blocks, infos)):
            if bi.param is p:
                for j in _index_set(b, base, isz):
                    expect[j] = float(i + 1)
        if not torch.equal(buf, expect):
            raise Violation("update_params did not add each block's update to exactly that block's elements (or wrote outside the parameter)", **desc)
        qidx = [i for i, bi in enumerate(infos) if bi.param is q]
        if len(qidx) == 1 and not torch.equal(q.detach(), torch.full((3,), float(qidx[0] + 1))):
            raise Violation("the second parameter of the group did not receive its own block's update", **desc)
        if len(shape) >= 2 and not merge and numel > 1:
            # the same shape as a NON-contiguous parameter (transposed / permuted view of another tensor): blocks must still be
            # views of the parameter's own storage, tile it exactly once, and update_params must reach the parameter
            perm = list(range(len(shape)))[::-1]
            src = torch.zeros(tuple(shape[i] for i in perm))
            pt = torch.nn.Parameter(src.permute(*perm))  # shape == `shape`, strides reversed
            pt.grad = torch.ones(shape)
            dt_ = Distributor(_group_for(ds, torch, [pt], limit, merge))
            tb = [b for b, bi in zip(dt_.local_blocked_params, dt_.local_block_info_list) if bi.param is pt]
            cov = []
            for b in tb:
                if b.untyped_storage().data_ptr() != pt.untyped_storage().data_ptr():
                    raise Violation("non-contiguous parameter: a block is not a view of the parameter's own storage", layout="permuted", **desc)
                if any(d > limit for d in b.shape):
                    raise Violation(f"non-contiguous parameter: block of shape {tuple(b.shape)} exceeds max_preconditioner_dim {limit}", layout="permuted", **desc)
                cov += _index_set(b, pt.untyped_storage().data_ptr(), pt.element_size())
            if sorted(cov) != list(range(numel)):
                raise Violation("non-contiguous parameter: blocks do not cover every element exactly once", layout="permuted", **desc)
            dt_.merge_and_block_gradients()
            dt_.update_params(masked_blocked_search_directions=tuple(torch.full(b.shape, float(i + 1)) for i, b in enumerate(dt_.local_masked_blocked_params)))
            if bool((pt.detach() == 0).any()) or not all(bool((b == float(i + 1)).all()) for i, b in enumerate(tb)):
                raise Violation("non-contiguous parameter: update_params did not reach every element of the parameter", layout="permuted", **desc)
            counters["noncontiguous_params_checked"] = counters.get("noncontiguous_params_checked", 0) + 1
        if len(mine) >= 2 or (merge and tuple(merged) != tuple(shape)):
            sigs.add((tuple(shape), limit, merge))
        if sample is None and len(mine) >= 2:
            sample = dict(desc, merged_view=list(merged), n_blocks=len(mine))
    return {"counters": counters, "sigs": [list(map(str, s)) for s in sorted(sigs, key=str)], "sample": sample}


def _invariance(case):
    ds = import_repo()
    import torch

    from .. import gen as G

    rnd = rng_for(*case["seed"])
    g0 = tgen(*case["seed"], "init")
    gs = rnd.choice([1e-2, 1.0, 1.0, 30.0])
    cfg = G.rand_config(rnd, grad_scale=gs, allow_iterative=False, dtype_pair=("float64", "float64"), max_dim_choices=(1, 2, 3, 4, 5))
    cfg["epsilon"] = gs * gs * rnd.choice([1e-1, 1e-2, 1e-3])
    shapes = G.rand_shapes(rnd, n_params=rnd.randint(1, 2), max_order=4, max_numel=300)
    T = rnd.randint(4, 9)
    pk, presence = G.rand_presence(rnd, len(shapes), T, kind=rnd.choice(["all", "all", "toggle", "all_absent_steps"]))
    D = torch.float64
    A_params = G.make_params(torch, shapes, D, g0)
    optA = G.build_optimizer(ds, torch, cfg, A_params)
    # blocks of A through the public distributor on A's own param group
    from distributed_shampoo.utils.shampoo_distributor import Distributor

    distA = Distributor(optA.param_groups[0])
    blocksA = distA.local_blocked_params
    infos = distA.local_block_info_list
    owner = [next(i for i, p in enumerate(A_params) if bi.param is p) for bi in infos]
    views = []  # how to cut a same-shaped tensor (gradient) into the same blocks
    for b, o in zip(blocksA, owner):
        p = A_params[o]
        views.append((o, tuple(b.shape), tuple(b.stride()), b.storage_offset() - p.storage_offset()))
    B_params = [torch.nn.Parameter(b.detach().clone().contiguous()) for b in blocksA]
    cfgB = dict(cfg, use_merge_dims=False, max_preconditioner_dim=1024)
    if isinstance(cfg["inv_root_override"], list):
        pass
    optB = G.build_optimizer(ds, torch, cfgB, B_params)
    counters = {"evals": 1, "steps_compared": 0, "blocks_compared": 0, "max_ratio": 0.0}
    gg = tgen(*case["seed"], "grads")
    gkind = rnd.choice(["dense", "dense", "lowrank", "sparse"])
    ambiguous = set()
    desc = {"config": cfg, "shapes": shapes, "block_shapes": [list(b.shape) for b in blocksA], "presence": pk, "steps": T}
    for t in range(T):
        for j, p in enumerate(A_params):
            p.grad = G.grad_for(torch, gg, p.shape, D, gkind, gs) if presence[t][j] else None
        for (o, shp, st, off), pb in zip(views, B_params):
            ga = A_params[o].grad
            pb.grad = None if ga is None else torch.as_strided(ga, shp, st, ga.storage_offset() + off).clone().contiguous()
        beforeA = [b.detach().clone() for b in blocksA]
        beforeB = [p.detach().clone() for p in B_params]
        optA.step()
        optB.step()
        counters["steps_compared"] += 1
        if cfg["precond"]["kind"] == "soap":
            # an eigenbasis is only determined up to rotations inside (near-)degenerate eigenspaces (rank-deficient early
            # factors): when both twins accumulated the same factor matrices but the eigensolver returned different bases, the
            # two runs are different valid SOAP runs (C03's subject) and the block is not compared any further
            for i, (bi, pb) in enumerate(zip(infos, B_params)):
                if i in ambiguous:
                    continue
                sa = optA.state[bi.param].get(bi.composable_block_ids[1], {}).get("shampoo")
                sb = next((v.get("shampoo") for k, v in optB.state[pb].items() if isinstance(v, dict) and "shampoo" in v), None)
                if sa is None or sb is None or not hasattr(sa, "factor_matrices_eigenvectors"):
                    continue
                for fa, fb in zip(sa.factor_matrices, sb.factor_matrices):
                    if float((fa - fb).abs().max()) > 1e-9 * float(fb.abs().max()) + 1e-300:
                        raise Violation(f"step {t + 1}: block {i} accumulated a different factor matrix than the same block optimised as a separate parameter", step=t + 1, block=i, **desc)
                for qa, qb in zip(sa.factor_matrices_eigenvectors, sb.factor_matrices_eigenvectors):
                    n_ = qa.shape[0]
                    if qa.numel() and float(((qa.T @ qb).abs() - torch.eye(n_, dtype=qa.dtype)).abs().max()) > 1e-7:
                        ambiguous.add(i)
                        counters["soap_basis_ambiguous_blocks"] = counters.get("soap_basis_ambiguous_blocks", 0) + 1
                        break
        for i, (ba, pb, a0, b0) in enumerate(zip(blocksA, B_params, beforeA, beforeB)):
            dA = ba.detach() - a0
            dB = pb.detach() - b0
            scale = dB.abs() + dB.abs().pow(2).mean().sqrt() if dB.numel() else dB.abs()
            tol = 1e-6 * scale + 1e-13 * (b0.abs() + 1e-300)
            r = float(((dA - dB).abs() / tol.clamp_min(1e-300)).max()) if dA.numel() else 0.0
            counters["blocks_compared"] += 1
            if i not in ambiguous:
                counters["max_ratio"] = max(counters["max_ratio"], r)
            if r > 1 and i in ambiguous:
                counters["soap_mismatch_excused_by_basis_ambiguity"] = counters.get("soap_mismatch_excused_by_basis_ambiguity", 0) + 1
            elif r > 1:
                raise Violation(f"step {t + 1}: block {i} of the blocked tensor moved differently from the same block optimised as a separate parameter (ratio {r:.3g})", step=t + 1, block=i, blocked_delta=[float(x) for x in dA.flatten()[:5]], separate_delta=[float(x) for x in dB.flatten()[:5]], **desc)
            with torch.no_grad():
                # keep the twins aligned so that rounding-level differences do not accumulate through ill-conditioned roots
                pb.copy_(ba)
    sig = (cfg["precond"]["kind"], cfg["precond"]["solver"]["type"], (cfg["grafting"] or {}).get("type"), cfg["use_merge_dims"], cfg["max_preconditioner_dim"], len(blocksA) > len(shapes), cfg["momentum"] > 0, cfg["betas"][0] > 0, pk)
    nontrivial = len(blocksA) > len(shapes) or any(tuple(b.shape) != tuple(A_params[o].shape) for b, o in zip(blocksA, owner))
    return {"counters": counters, "sigs": [list(map(str, sig))] if nontrivial else [], "sample": {"family": "invariance", "shapes": shapes, "block_shapes": desc["block_shapes"][:8], "max_preconditioner_dim": cfg["max_preconditioner_dim"], "use_merge_dims": cfg["use_merge_dims"], "precond": cfg["precond"]["kind"], "grafting": cfg["grafting"]}}


def run_case(case):
    if case["family"] == "struct":
        return _struct(case)
    return _invariance(case)


def conclusive(agg, results, tier):
    need = {"multi_block": 300, "merged": 100, "update_params_checked": 500, "grad_blocks_checked": 1000, "steps_compared": 100}
    low = {k: agg.get(k, 0) for k in need if agg.get(k, 0) < need[k]}
    return f"too few observations: {low}" if low else None
