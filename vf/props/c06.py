"""C06 - DDP Shampoo equals serial Shampoo and keeps replicas identical.

Real code: DistributedShampoo with DDPShampooConfig on 1..8 simulated ranks (threads on torch's threaded process group, real
DeviceMesh / DTensor), plus real multi-process gloo runs in the thorough tier.
Oracle: (i) replicas bit-identical after every step; (ii) exact communication: bit-identical to a serial twin fed the same gradients;
(iii) reduced precision: the owner's update (captured at the public update_params argument) equals the re-synchronised serial twin's
bit for bit and every rank's new parameter is exactly W_old + cast(u) resp. cast(W_old + u); (iv) collective ledger: identical
per-rank sequences of group creations and, per group, of (op, size, dtype, iteration); (v) logical deadlock detector."""
from __future__ import annotations

from ..common import Inconclusive, OutOfDomain, Violation, beq, import_repo, rng_for, sha, tgen
from ..distlib import COMM, capture, ddp_config, divisors

ID = "C06"
LEVEL = "exploration"
RULE = (
    "one case = one DDP configuration (world size 1..8, every divisor as num_trainers_per_group, communicate_params on/off, DEFAULT/FP32/FP16/BF16, float32/float64 "
    "parameters, generated optimizer configuration, parameter set with >= 1 block per rank, gradient-presence pattern incl. steps that starve a rank, 5-12 steps) run "
    "under 2 (quick) / 4 (thorough) interleaving seeds; each (configuration, interleaving) world run is one evaluation. Non-trivial: W >= 2, G >= 2 and >= 1 step where "
    "every rank of a group contributed an update. Distinct by (W, G, comm dtype, comm mode, param dtype, config signature, presence class, starved)."
)
ASSUMPTIONS = [
    "ranks are threads on torch's in-process threaded process group (real DeviceMesh/DTensor); NCCL/GPU timing is not reachable",
    "get_device_mesh is cached per simulated rank (per process in real training)",
    "a harness barrier per iteration models the gradient all-reduce of data-parallel training",
    "all ranks receive identical gradients (post all-reduce); a single param group when the communicated update is captured",
    "iterative root solvers excluded; epsilon relative to the gradient scale",
]
TIMEOUT = {"quick": 1800, "thorough": 7200}
CONFIRM_BY_RERUN = True  # ranks are threads here: an alarm must reproduce in a fresh process (vf/main.py)
ANCHORS = {
    "distributed_shampoo/utils/shampoo_ddp_distributor.py": ["DDPDistributor.__init__", "DDPDistributor.update_params", "DDPDistributor.merge_and_block_gradients", "DDPDistributor._allocate_zeros_distributed_tensor", "DDPDistributor.all_gather_into_tensor"],
    "distributed_shampoo/distributed_shampoo.py": ["DistributedShampoo.step"],
}


def gen_cases(tier, seed):
    n = 260 if tier == "quick" else 3000
    cases = [{"id": f"ddp{i}", "seed": [seed, i], "interleavings": 2 if tier == "quick" else 4, "backend": "threaded"} for i in range(n)]
    # a fixed case that exhibits the listed known finding in every run (the KNOWN-FINDING line must not depend on the seed)
    cases.append({"id": "kf_zero_dim_bf16", "seed": [0, "kf"], "interleavings": 1, "backend": "threaded", "fixed": "zero_dim_bf16"})
    if tier == "thorough":
        for i in range(12):
            cases.append({"id": f"gloo{i}", "seed": [seed, "gloo", i], "interleavings": 1, "backend": "gloo"})
    return cases


def _tame(cfg):
    """keep the distributed workloads in a numerically tame regime (the update rule itself is C01's subject): without grafting
    only the scale-free default roots are used, so that no run diverges by configuration"""
    if cfg["grafting"] is None:
        cfg["inv_root_override"] = 0
        if cfg["precond"]["solver"]["type"] == "eigen":
            cfg["precond"]["solver"]["exponent_multiplier"] = 1.0


def make_setup(case):
    from .. import gen as G

    if case.get("fixed") == "zero_dim_bf16":
        cfg = {"lr": 1.0, "betas": [0.9, 0.99], "beta3": -1.0, "epsilon": 1e-2, "momentum": 0.0, "dampening": 0.0, "weight_decay": 0.0, "max_preconditioner_dim": 1024,
               "precondition_frequency": 1, "start_preconditioning_step": 1, "inv_root_override": 0, "use_nesterov": False, "use_bias_correction": True,
               "use_decoupled_weight_decay": True, "grafting": {"type": "adam", "epsilon": 1e-3, "beta2": 0.97}, "use_merge_dims": False, "preconditioner_dtype": "float32",
               "param_dtype": "bfloat16", "precond": {"kind": "shampoo", "ignored_dims": [], "num_tolerated": 3, "solver": {"type": "eigen", "enhance_stability": False, "exponent_multiplier": 1.0}}}
        return {"groups": None, "W": 2, "G": 2, "comm": "BF16", "communicate_params": False, "cfg": cfg, "shapes": [[], [3], [2, 2], []], "T": 12, "presence_kind": "all",
                "presence": [[True] * 4 for _ in range(12)], "grad_scale": 1.0, "exact": True, "grad_kind": "dense"}
    rnd = rng_for(*case["seed"], "c06")
    W = rnd.choice([1, 2, 2, 3, 4, 4, 5, 6, 8])
    Gs = rnd.choice(divisors(W))
    comm = rnd.choice(["DEFAULT", "FP32", "FP16", "BF16"])
    cp = rnd.random() < 0.5
    pdt = rnd.choice(["float32", "float32", "float64", "bfloat16"])
    gs = rnd.choice([1e-2, 1.0, 1.0])
    cfg = G.rand_config(rnd, grad_scale=gs, allow_iterative=False, dtype_pair=(pdt, rnd.choice(["float32", "float64"]) if pdt == "float64" else "float32"), well_conditioned=True, max_dim_choices=(2, 3, 4, 5, 1024))
    _tame(cfg)
    # enough blocks for every rank of a group, not too many
    for _ in range(50):
        shapes = G.rand_shapes(rnd, n_params=rnd.randint(1, 5), max_order=3, max_numel=200)
        nb = sum(G.n_blocks(s, cfg["max_preconditioner_dim"], cfg["use_merge_dims"]) for s in shapes)
        if Gs <= nb <= 20:
            break
    else:
        shapes = [[3]] * Gs
    if isinstance(case["seed"][-1], int) and case["seed"][-1] % 8 == 2:
        # 0-D parameters kept 0-D (merging off): the one block shape on which dtype promotion with 0-D scalars behaves differently
        cfg["use_merge_dims"] = False
        shapes = [[]] + [s for s in shapes if len(s) > 0][:3] + [[]]
        while sum(G.n_blocks(s, cfg["max_preconditioner_dim"], cfg["use_merge_dims"]) for s in shapes) < Gs:
            shapes.append([3])
    T = rnd.randint(5, 12)
    pk, pres = G.rand_presence(rnd, len(shapes), T, kind=rnd.choice(["all", "never_one", "toggle", "random", "random", "bursts", "all_absent_steps", "rotate"]))
    groups = None
    force_groups = isinstance(case["seed"][-1], int) and case["seed"][-1] % 8 == 5
    if len(shapes) >= 2 and (rnd.random() < 0.25 or force_groups):
        # several param groups (each with its own distributor, buffers and step counter); judged with exact communication only
        cut = rnd.randint(1, len(shapes) - 1)
        parts = [list(range(0, cut)), list(range(cut, len(shapes)))]
        if all(sum(G.n_blocks(shapes[i], cfg["max_preconditioner_dim"], cfg["use_merge_dims"]) for i in part) >= Gs for part in parts):
            groups = [{"params": parts[0], "overrides": {"lr": 0.02}}, {"params": parts[1], "overrides": {"weight_decay": 0.0, "momentum": 0.45 if cfg["momentum"] > 0 else 0.0}}]
            comm = rnd.choice(["DEFAULT", "FP32"])
            if pdt == "float64":
                pdt = "float32"
                cfg["param_dtype"], cfg["preconditioner_dtype"] = "float32", "float32"
    if groups is not None and force_groups:
        # a rank of the FIRST group is left without any gradient on some steps while later groups still have work
        j0 = groups[0]["params"][rnd.randrange(len(groups[0]["params"]))]
        for t_ in rnd.sample(range(T), max(1, T // 3)):
            pres[t_][j0] = False
        pk = "first_group_param_starved"
    pdts = None
    if pdt == "float32" and len(shapes) >= 2 and (rnd.random() < 0.25 or (isinstance(case["seed"][-1], int) and case["seed"][-1] % 10 == 3)):
        # one param group mixing bfloat16 and float32 parameters; communication at least as precise as every parameter
        pdts = [rnd.choice(["bfloat16", "float32"]) for _ in shapes]
        k = rnd.randrange(len(shapes))
        pdts[k], pdts[(k + 1) % len(shapes)] = "bfloat16", "float32"
        comm = rnd.choice(["DEFAULT", "FP32"])
    # exact communication: the communication dtype represents every value of the parameter dtype
    exact = (COMM[comm] == "float32" and pdt in ("float32", "bfloat16")) or (COMM[comm] == "bfloat16" and pdt == "bfloat16")
    # the default num_trainers_per_group=-1 means "the whole world is one group"
    g_arg = -1 if (Gs == W and rnd.random() < 0.5) else Gs
    # scheduler edits of param_groups between steps (same edits on every rank and in the serial twin); a separate stream so that
    # the other draws of the setup are unchanged
    rnd_e = rng_for(*case["seed"], "c06edits")
    edits = []
    for _ in range(rnd_e.choice([0, 0, 1, 2, 3])):
        key = rnd_e.choice(["lr", "lr", "weight_decay", "momentum"])
        if (key == "momentum" and cfg["momentum"] == 0.0) or (key == "weight_decay" and cfg["weight_decay"] == 0.0):
            continue
        val = {"lr": rnd_e.choice([0.5, 2.0, 0.0]) * cfg["lr"], "weight_decay": rnd_e.choice([0.0, 0.5, 2.0]) * cfg["weight_decay"], "momentum": rnd_e.choice([0.4, 0.7])}[key]
        edits.append([rnd_e.randrange(1, T), rnd_e.randrange(len(groups) if groups else 1), key, val])
    return {"edits": sorted(edits), "G_arg": g_arg, "pdts": pdts, "groups": groups, "W": W, "G": Gs, "comm": comm, "communicate_params": cp, "cfg": cfg, "shapes": shapes, "T": T, "presence_kind": pk, "presence": pres, "grad_scale": gs, "exact": exact, "grad_kind": rnd.choice(["dense", "dense", "sparse"])}


def _grads(torch, G, S, seed, t):
    """identical on every rank: seeded per (step, param)"""
    dt = getattr(torch, S["cfg"]["param_dtype"])
    out = []
    for j, s in enumerate(S["shapes"]):
        if S["presence"][t][j]:
            dt = getattr(torch, S["pdts"][j]) if S.get("pdts") else dt
            out.append(G.grad_for(torch, tgen(*seed, "g", t, j), s, dt, S["grad_kind"], S["grad_scale"] * (1 + j)))
        else:
            out.append(None)
    return out


def init_params(torch, G, S, seed):
    """initial parameter values, identical on every rank and in every twin (per-parameter dtypes for mixed-dtype groups)"""
    init = G.make_params(torch, S["shapes"], getattr(torch, S["cfg"]["param_dtype"]), tgen(*seed, "init"), scale=S["grad_scale"])
    if S.get("pdts"):
        init = [torch.nn.Parameter(p.detach().to(getattr(torch, d))) for p, d in zip(init, S["pdts"])]
    return init


def _state_hashes(opt, p):
    import torch
    from optimizer_modules import OptimizerModule as OM

    from .c09 import walk_state

    return [(str(path), sha(t)) for path, t in walk_state(opt.state.get(p, {}), torch, OM) if path[-1:] != ("step",)]


def rank_program(ds, torch, S, seed, rank, world, with_twin):
    from .. import gen as G

    cfg = S["cfg"]
    dt = getattr(torch, cfg["param_dtype"])
    init = init_params(torch, G, S, seed)
    params = [torch.nn.Parameter(p.detach().clone()) for p in init]
    opt = G.build_optimizer(ds, torch, cfg, params, S.get("groups"), distributed_config=ddp_config(ds, S["comm"], S.get("G_arg", S["G"]), S["communicate_params"]))
    twin_p = twin = None
    if with_twin:
        twin_p = [torch.nn.Parameter(p.detach().clone()) for p in init]
        twin = G.build_optimizer(ds, torch, cfg, twin_p, S.get("groups"))
    hist = {"params": [], "old": [], "u_ddp": [], "u_twin": [], "twin": [], "owned": None, "state_keys": None}
    # which blocks does this rank own / hold state for (public surface): keys of optimizer.state with tensors of non-zero local size
    for t in range(S["T"]):
        world.iteration(t)
        grads = _grads(torch, G, S, seed, t)
        for p, g in zip(params, grads):
            p.grad = None if g is None else g.clone()
        hist["old"].append([p.detach().clone() for p in params])
        for e in S.get("edits", []):
            if e[0] == t:
                opt.param_groups[e[1]][e[2]] = e[3]
                if twin is not None:
                    twin.param_groups[e[1]][e[2]] = e[3]
                hist["edits_applied"] = hist.get("edits_applied", 0) + 1
        if twin is not None:
            if not S["exact"]:
                with torch.no_grad():
                    for q, p in zip(twin_p, params):
                        q.copy_(p)  # re-synchronise: only the rounding of the communicated quantity may separate them
            for q, g in zip(twin_p, grads):
                q.grad = None if g is None else g.clone()
        absent = [j for j, g in enumerate(grads) if g is None]
        shadow = {j: _state_hashes(opt, params[j]) for j in absent}
        with capture() as rec:
            opt.step()
        hist["u_ddp"].append(rec)
        for j in absent:
            hist["absent_checked"] = hist.get("absent_checked", 0) + 1
            if not beq(params[j].detach(), hist["old"][-1][j]):
                raise Violation(f"step {t + 1}: rank {rank}: parameter {j} has no gradient but changed under DDP", step=t + 1, rank=rank, param=j, kind="absent_changed")
            if _state_hashes(opt, params[j]) != shadow[j]:
                raise Violation(f"step {t + 1}: rank {rank}: optimizer state of parameter {j} (no gradient) changed under DDP", step=t + 1, rank=rank, param=j, kind="absent_changed")
        if twin is not None:
            with capture() as rec2:
                twin.step()
            hist["u_twin"].append(rec2)
            hist["twin"].append([q.detach().clone() for q in twin_p])
        hist["params"].append([p.detach().clone() for p in params])
    from ..distlib import collect_placement, live_buffer_geometry

    placement = collect_placement(opt, params)
    hist["buffers"] = live_buffer_geometry(opt, params)
    hist["placement"] = placement
    return hist


def _is_zero_dim_narrow(S, j):
    """0-D parameter (kept 0-D: merging off) of a 16-bit dtype communicated in that same 16-bit dtype"""
    return len(S["shapes"][j]) == 0 and not S["cfg"]["use_merge_dims"] and S["cfg"]["param_dtype"] in ("bfloat16", "float16") and COMM[S["comm"]] == S["cfg"]["param_dtype"]


def judge(torch, S, results, desc_full, counters):
    desc = {k: v for k, v in desc_full.items() if k not in ("_geometry", "_known_hits")}
    geo_all = desc_full["_geometry"]
    """checks (i)-(iii) on the recorded per-rank histories"""
    W = S["W"]
    comm_dt = getattr(torch, COMM[S["comm"]])
    r0 = results[0]
    full_steps = 0
    known_skip, known_hits = set(), desc_full.setdefault("_known_hits", [])
    for t in range(S["T"]):
        # (i) replica agreement
        for r in range(1, W):
            for j, (a, b) in enumerate(zip(r0["params"][t], results[r]["params"][t])):
                if not beq(a, b):
                    raise Violation(f"step {t + 1}: parameter {j} differs between rank 0 and rank {r} (replicas must be bit-identical)", step=t + 1, param=j, rank=r, kind="replica_mismatch", **desc)
        counters["replica_comparisons"] += (W - 1) * len(r0["params"][t])
        # owner's update == the serial optimizer's update for the same state; exactly one owner per group
        # (block ids are per param group: with several groups only the parameter-level comparisons below are made)
        multi = bool(S.get("groups"))
        tw = {}
        for rec in r0["u_twin"][t]:
            tw.update(rec)
        owners = {}
        for r in range(W if not multi else 0):
            for rec in results[r]["u_ddp"][t]:
                if "__error__" in rec:
                    raise Inconclusive(f"update capture failed: {rec['__error__']}")
                for bid, u in rec.items():
                    if bid[0] in known_skip:
                        owners.setdefault(bid, set()).add(r % S["G"])
                        continue  # this parameter already left the serial trajectory through the known finding
                    if bid not in tw:
                        raise Violation(f"step {t + 1}: rank {r} produced an update for block {bid} that the serial optimizer does not update", step=t + 1, kind="update_set", **desc)
                    if not beq(u, tw[bid]):
                        raise Violation(f"step {t + 1}: the update of block {bid} computed by its owner (rank {r}) differs from the serial optimizer's update for the same state", step=t + 1, rank=r, kind="owner_update", max_abs_diff=float((u.double() - tw[bid].double()).abs().max()), max_rel_diff=float(((u.double() - tw[bid].double()).abs() / (tw[bid].double().abs() + 1e-300)).max()), owner_update=[float(x) for x in u.double().flatten()[:8]], serial_update=[float(x) for x in tw[bid].double().flatten()[:8]], **desc)
                    owners.setdefault(bid, set()).add(r % S["G"])
                    counters["owner_updates_compared"] += 1
        for bid in (tw if not multi else ()):
            if len(owners.get(bid, ())) != 1:
                raise Violation(f"step {t + 1}: block {bid} was updated by {len(owners.get(bid, ()))} group ranks (expected exactly one owner per group)", step=t + 1, kind="ownership", **desc)
        if S["exact"]:
            # (ii) exact communication: equal to the (free-running) serial optimizer
            for j, (a, b) in enumerate(zip(r0["params"][t], r0["twin"][t])):
                if j in known_skip:
                    continue
                if not beq(a, b) and _is_zero_dim_narrow(S, j):
                    # KNOWN FINDING (mechanism zero_dim_update_wider_than_comm): recorded, this parameter is no longer compared
                    known_skip.add(j)
                    known_hits.append({"step": t + 1, "param": j, "max_abs_diff": float((a.double() - b.double()).abs().max())})
                    continue
                if not beq(a, b):
                    raise Violation(f"step {t + 1}: parameter {j} under DDP differs from the serial optimizer although communication is exact", step=t + 1, param=j, kind="serial_mismatch", max_abs_diff=float((a.double() - b.double()).abs().max()), max_rel_diff=float(((a.double() - b.double()).abs() / (b.double().abs() + 1e-300)).max()), **desc)
            counters["serial_bitwise_steps"] += 1
        else:
            # (iii) reduced precision: new parameter == W_old + cast(u) / cast(W_old + u) with u the serial update
            exp = [w.clone() for w in r0["old"][t]]
            geo = geo_all
            for bid, u in tw.items():
                j, shp, st, off = geo[bid]
                view = torch.as_strided(exp[j], shp, st, off)
                # in-place arithmetic on mixed dtypes is carried out in the promoted type (at least float32) and rounded once
                acc = torch.promote_types(torch.promote_types(view.dtype, comm_dt), torch.float32)
                if S["communicate_params"]:
                    own = (view.to(torch.promote_types(acc, u.dtype)) + u.to(torch.promote_types(acc, u.dtype))).to(view.dtype)
                    view.copy_(own.to(comm_dt).to(view.dtype))
                else:
                    view.copy_((view.to(acc) + u.to(comm_dt).to(acc)).to(view.dtype))
            for j, (a, b) in enumerate(zip(r0["params"][t], exp)):
                if not beq(a, b):
                    raise Violation(f"step {t + 1}: parameter {j} is not W_old + round_{S['comm']}(update) ({'parameters' if S['communicate_params'] else 'updates'} communicated): DDP deviates from serial by more than the rounding of the communicated quantity", step=t + 1, param=j, kind="rounding_model", max_abs_diff=float((a.double() - b.double()).abs().max()), max_rel_diff=float(((a.double() - b.double()).abs() / (b.double().abs() + 1e-300)).max()), **desc)
            counters["rounding_model_steps"] += 1
        # a step where every rank of every group contributed
        contrib = [sum(len(rec) for rec in results[r]["u_ddp"][t]) for r in range(W)]
        if all(c > 0 for c in contrib):
            full_steps += 1
        if any(c == 0 for c in contrib) and any(c > 0 for c in contrib):
            counters["steps_with_starved_rank"] += 1
    return full_steps


def run_case(case):
    ds = import_repo()
    import torch

    from .. import ranksim
    from ..distlib import install_update_capture

    install_update_capture()
    S = make_setup(case)
    if case.get("backend") == "gloo":
        from . import c06_gloo

        return c06_gloo.run(case, S)
    counters = {"evals": 0, "absent_params_checked": 0, "replica_comparisons": 0, "serial_bitwise_steps": 0, "rounding_model_steps": 0, "owner_updates_compared": 0, "collectives_logged": 0, "group_creations_logged": 0, "steps_with_starved_rank": 0, "set_interleavings": []}
    desc = {"pdts": S.get("pdts"), "num_trainers_per_group": S.get("G_arg", S["G"]), "W": S["W"], "G": S["G"], "comm": S["comm"], "communicate_params": S["communicate_params"], "cfg": S["cfg"], "shapes": S["shapes"], "presence_kind": S["presence_kind"], "presence": S["presence"], "T": S["T"]}
    # block geometry (param index, shape, strides, offset) keyed by block id, from a public-constructor serial Distributor
    from distributed_shampoo.utils.shampoo_distributor import Distributor

    from .. import gen as G

    probe_p = G.make_params(torch, S["shapes"], getattr(torch, S["cfg"]["param_dtype"]), tgen(*case["seed"], "init"))
    probe = G.build_optimizer(ds, torch, S["cfg"], probe_p)
    dist0 = Distributor(probe.param_groups[0])
    geo = {}
    for v, bi in zip(dist0.local_blocked_params, dist0.local_block_info_list):
        j = next(i for i, p in enumerate(probe_p) if p is bi.param)
        geo[bi.composable_block_ids] = (j, tuple(v.shape), tuple(v.stride()), v.storage_offset() - bi.param.storage_offset())
    full = 0
    known_all = []
    ledger_excerpt = None
    for il in range(case["interleavings"]):
        world = ranksim.World(S["W"], interleave_seed=hash((tuple(map(str, case["seed"])), il)) & 0xFFFFFF)
        from ..common import KernelObserver

        with KernelObserver() as kobs:
            results = world.run(lambda rank, w: rank_program(ds, torch, S, case["seed"], rank, w, with_twin=(rank == 0)))
        if world.errors and kobs.nonfinite_from_finite and any(type(e[0]).__name__ == "PreconditionerValueError" for e in world.errors.values()):
            counters["aborted_lapack_returned_nonfinite"] = counters.get("aborted_lapack_returned_nonfinite", 0) + 1
            continue
        counters["evals"] += 1
        counters["collectives_logged"] += world.n_collectives()
        counters["group_creations_logged"] += sum(len(c) for c in world.creations.values())
        counters["set_interleavings"].append(f"{case['id']}:{world.interleaving_signature()}")
        ledger_excerpt = world.excerpt()
        d = dict(desc, interleaving=il)
        if world.errors:
            world.raise_errors()
        try:
            world.check_ledger(f"DDP W={S['W']} G={S['G']}")
        except Violation as v:
            v.witness.update(d)
            raise
        if len(results) != S["W"]:
            raise Inconclusive("a rank did not finish although no error or deadlock was recorded")
        counters["absent_params_checked"] += sum(h.get("absent_checked", 0) for h in results.values())
        counters["schedule_edits_applied"] = counters.get("schedule_edits_applied", 0) + sum(h.get("edits_applied", 0) for h in results.values())
        d["_geometry"] = geo
        d["_known_hits"] = known_all
        try:
            full = max(full, judge(torch, S, results, d, counters))
        except Violation as v:
            v.witness.pop("_geometry", None)
            v.witness.pop("_known_hits", None)
            v.partial = {"counters": counters}
            raise
    if known_all:
        v = Violation("0-D parameter of a 16-bit dtype communicated in the same 16-bit dtype: DDP differs from the serial optimizer although the communication dtype is as precise as the parameter (the update of a 0-D block is carried in float32 and rounded by the communication)", kind="zero_dim_update_wider_than_comm", hits=known_all[:5], **desc)
        v.partial = {"counters": counters}
        raise v
    nontrivial = S["W"] >= 2 and S["G"] >= 2 and full >= 1
    counters["multi_group_cases"] = int(bool(S.get("groups")))
    sig = [bool(S.get("groups")), S["W"], S["G"], S["comm"], S["communicate_params"], S["cfg"]["param_dtype"], S["cfg"]["precond"]["kind"], (S["cfg"]["grafting"] or {}).get("type", "none"), S["cfg"]["momentum"] > 0, S["presence_kind"], counters["steps_with_starved_rank"] > 0]
    return {"counters": counters, "sigs": [sig] if nontrivial else [], "sample": dict({k: desc[k] for k in ("W", "G", "comm", "communicate_params", "shapes", "presence_kind", "T")}, ledger=ledger_excerpt)}


def conclusive(agg, results, tier):
    need = {"replica_comparisons": 3000, "serial_bitwise_steps": 300, "rounding_model_steps": 300, "owner_updates_compared": 1000, "collectives_logged": 3000, "steps_with_starved_rank": 30}
    low = {k: agg.get(k, 0) for k in need if agg.get(k, 0) < need[k]}
    return f"too few observations: {low}" if low else None


def classify(case, witness):
    """known-finding classifier: a predicate on the generated case and the kind of the failing comparison, never a hash"""
    if witness.get("kind") == "zero_dim_update_wider_than_comm":
        S = make_setup(case)
        if any(_is_zero_dim_narrow(S, j) for j in range(len(S["shapes"]))):
            return "zero_dim_update_wider_than_comm"
    return None
