"""Real-process cross-check of C06 on the gloo backend (thorough tier)."""
from __future__ import annotations

import json
import os
import shutil
import subprocess
import sys
import tempfile

from ..common import HOME, Inconclusive, Violation, beq, import_repo, tgen


def run(case, S):
    ds = import_repo()
    import torch

    from .. import gen as G

    S = dict(S)
    S["W"] = min(S["W"], 4)
    if S["W"] % S["G"]:
        S["G"] = 1 if S["W"] == 1 else max(d for d in range(1, S["W"] + 1) if S["W"] % d == 0 and d <= S["G"])
    S["G_arg"] = -1 if (S.get("G_arg") == -1 and S["G"] == S["W"]) else S["G"]
    S["T"] = min(S["T"], 6)
    S["seed"] = case["seed"]
    counters = {"evals": 1, "gloo_runs": 1, "gloo_collectives_logged": 0, "replica_comparisons": 0, "serial_bitwise_steps": 0}
    d = tempfile.mkdtemp(prefix="vf_gloo_")
    try:
        sp = os.path.join(d, "setup.json")
        json.dump(S, open(sp, "w"))
        env = dict(os.environ)
        procs = [subprocess.Popen([sys.executable, "-m", "vf.gloo_rank", sp, str(r), d], cwd=HOME, env=env, stdout=open(os.path.join(d, f"out_{r}.txt"), "w"), stderr=subprocess.STDOUT) for r in range(S["W"])]
        timed_out = False
        for p in procs:
            try:
                p.wait(timeout=180)
            except subprocess.TimeoutExpired:
                timed_out = True
        for p in procs:
            if p.poll() is None:
                p.kill()
                p.wait()
        led = {}
        for r in range(S["W"]):
            f = os.path.join(d, f"ledger_{r}.jsonl")
            led[r] = [json.loads(x) for x in open(f)] if os.path.exists(f) else []
        desc = {"backend": "gloo", "W": S["W"], "G": S["G"], "comm": S["comm"], "communicate_params": S["communicate_params"], "shapes": S["shapes"], "presence": S["presence"], "T": S["T"]}
        finished = {r: any(e.get("ev") == "finished" for e in led[r]) for r in led}
        # open collectives
        for r, evs in led.items():
            open_calls = {}
            for e in evs:
                key = (e.get("op"), json.dumps(e.get("group")), e.get("seq"), e.get("iter") if e.get("op") == "grad_allreduce" else None)
                if e.get("ev") == "call":
                    open_calls[key] = e
                elif e.get("ev") == "ret":
                    open_calls.pop(key, None)
            if open_calls and any(finished.values()):
                raise Violation(f"gloo: rank {r} is blocked in {list(open_calls)[0][0]} while a peer has finished its program", kind="stuck_rank", ledger_tail={str(k): v[-8:] for k, v in led.items()}, **desc)
        counters["gloo_collectives_logged"] = sum(1 for evs in led.values() for e in evs if e.get("ev") == "call")
        crea = {r: [e["group"] for e in evs if e.get("ev") == "call" and e["op"] == "new_group"] for r, evs in led.items()}
        for r in range(1, S["W"]):
            if crea[r] != crea[0]:
                raise Violation(f"gloo: ranks perform different sequences of process-group creations (rank 0 vs rank {r})", kind="creation_mismatch", rank0=crea[0], other=crea[r], **desc)
        if timed_out or not all(finished.values()):
            tails = {r: open(os.path.join(d, f"out_{r}.txt")).read()[-600:] for r in range(S["W"])}
            raise Inconclusive(f"gloo run did not finish (timeout={timed_out}) without a log-level violation: {tails}")
        per_group = {}
        for r, evs in led.items():
            for e in evs:
                if e.get("ev") == "call" and e["op"] == "all_gather":
                    per_group.setdefault(tuple(e["group"]), {}).setdefault(r, []).append((e["nbytes"], e["iter"]))
        for g, byrank in per_group.items():
            seqs = [byrank.get(m, []) for m in g]
            if any(sq != seqs[0] for sq in seqs):
                raise Violation(f"gloo: members of group {list(g)} perform different sequences of collectives", kind="collective_mismatch", **desc)
        hist = {r: torch.load(os.path.join(d, f"params_{r}.pt"), weights_only=False) for r in range(S["W"])}
        for t in range(S["T"]):
            for r in range(1, S["W"]):
                for j, (a, b) in enumerate(zip(hist[0][t], hist[r][t])):
                    counters["replica_comparisons"] += 1
                    if not beq(a, b):
                        raise Violation(f"gloo: step {t + 1}: parameter {j} differs between rank 0 and rank {r}", kind="replica_mismatch", **desc)
        if S["exact"]:
            cfg = S["cfg"]
            dt = getattr(torch, cfg["param_dtype"])
            from . import c06

            init = c06.init_params(torch, G, S, case["seed"])
            ps = [torch.nn.Parameter(p.detach().clone()) for p in init]
            opt = G.build_optimizer(ds, torch, cfg, ps)
            for t in range(S["T"]):
                for j, (p, s) in enumerate(zip(ps, S["shapes"])):
                    p.grad = G.grad_for(torch, tgen(*case["seed"], "g", t, j), s, p.dtype, S["grad_kind"], S["grad_scale"] * (1 + j)) if S["presence"][t][j] else None
                opt.step()
                for j, (a, b) in enumerate(zip(hist[0][t], ps)):
                    if not beq(a, b.detach()):
                        raise Violation(f"gloo: step {t + 1}: parameter {j} under DDP differs from the serial optimizer although communication is exact", kind="serial_mismatch", **desc)
                counters["serial_bitwise_steps"] += 1
        return {"counters": counters, "sigs": [["gloo", S["W"], S["G"], S["comm"], S["communicate_params"]]] if S["W"] >= 2 else [], "sample": desc}
    finally:
        shutil.rmtree(d, ignore_errors=True)
