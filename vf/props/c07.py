"""C07 - FSDP/HSDP Shampoo equals serial Shampoo on the shard's recovered tensor blocks.
(also hosts the generic sharded-world runner used by C08)

Real code: FSDPDistributor / HSDPDistributor (C08: FullyShardDistributor / HybridShardDistributor) inside DistributedShampoo on
simulated ranks.  The harness builds flat shards + FSDPParameterMetadata (C08: dim-0 sharded DTensors) directly.
Oracle: serial twin whose parameters are clones of the sub-tensors given by the INDEPENDENT slab DP of vf/blocking.py (C08: the
non-empty local tensors), same gradients cut the same way; every shard must match its twin after every step (bitwise first, else
within the rounding of the communicated quantity); replicas bit-identical; collective ledger + deadlock detector for the
replicate-group variants."""
from __future__ import annotations

import math

from ..blocking import one_min_decomposition
from ..common import Inconclusive, Violation, beq, import_repo, rng_for, tgen
from ..distlib import COMM, divisors

ID = "C07"
LEVEL = "exploration"
RULE = (
    "one case = one sharded configuration: original shapes of order 1..4, shard boundaries from flat-parameter sharding (concatenate, pad, chunk over 1..8 shard "
    "ranks: mid-row cuts and empty shards) or arbitrary cuts; FSDPDistributor on S simulated ranks or HSDPDistributor on R x S meshes (R*S <= 8) with every divisor "
    "num_trainers_per_group, communication dtype / communicate_params, generated optimizer configuration, absent gradients, 4-8 steps, 1-2 interleavings; each world "
    "run is one evaluation. Non-trivial: some shard starts or ends mid-row, or an empty shard exists, or R >= 2. Distinct by (mode, R, S, G, comm, cut kind, "
    "has mid-row cut, has empty shard, config signature, presence class)."
)
ASSUMPTIONS = [
    "ranks are threads on torch's threaded process group; shards and FSDPParameterMetadata are built by the harness ('given flattened parameter shards and their metadata')",
    "every rank holds at least num_trainers_per_group blocks (the constructor asserts that no worker is idle)",
    "gradients of empty shards are None (what FSDP delivers)",
    "reduced-precision communication is judged by replica bit-equality plus |shard - resynchronised twin| <= 4*u_comm*(|update| resp. |W|) elementwise",
]
TIMEOUT = {"quick": 1800, "thorough": 7200}
CONFIRM_BY_RERUN = True  # ranks are threads here: an alarm must reproduce in a fresh process (vf/main.py)
ANCHORS = {
    "distributed_shampoo/utils/shampoo_fsdp_distributor.py": ["FSDPDistributor._merge_and_block_parameters", "FSDPDistributor._merge_and_block_gradients", "FSDPDistributor.update_params"],
    "distributed_shampoo/utils/shampoo_hsdp_distributor.py": ["HSDPDistributor.__init__", "HSDPDistributor._merge_and_block_parameters", "HSDPDistributor._merge_and_block_gradients", "HSDPDistributor.update_params", "HSDPDistributor.merge_and_block_gradients", "HSDPDistributor._allocate_zeros_distributed_tensor"],
}
MODES = ("fsdp", "hsdp")


def gen_cases(tier, seed):
    n = 200 if tier == "quick" else 2500
    cases = [{"id": f"{MODES[i % 2]}{i}", "mode": MODES[i % 2], "seed": [seed, i], "interleavings": 1 if tier == "quick" else 2} for i in range(n)]
    if tier == "thorough":  # real torch FSDP on gloo processes: compile_fsdp_parameter_metadata + end-to-end differential
        cases += [{"id": f"real{i}", "mode": "real_fsdp", "seed": [seed, "real", i], "interleavings": 1} for i in range(10)]
    return cases


# ------------------------------------------------------------------------------------------------ setup generation
def make_setup(case):
    from .. import gen as G

    mode = case["mode"]
    rnd = rng_for(*case["seed"], "shard")
    replicated = mode in ("hsdp", "hybrid")
    if replicated:
        R, Sn = rnd.choice([(2, 1), (2, 2), (2, 2), (3, 2), (2, 3), (4, 2), (2, 4), (4, 1), (3, 1)])
        Gs = rnd.choice(divisors(R))
    else:
        R, Sn, Gs = 1, rnd.choice([1, 2, 3, 4, 4, 5, 8]), 1
    comm = rnd.choice(["DEFAULT", "FP32", "FP16", "BF16"]) if replicated else "DEFAULT"
    cp = replicated and rnd.random() < 0.5
    pdt = rnd.choice(["float32", "float64", "float64"])
    fdt = "float32" if pdt == "float32" else rnd.choice(["float32", "float64"])
    # every 10th case pair (one per mode) is forced into the mixed-dtype class below
    force_mixed = isinstance(case["seed"][-1], int) and case["seed"][-1] % 10 in (3, 4)
    if force_mixed:
        pdt = fdt = "float32"
        if replicated and rnd.random() < 0.6:
            comm = "DEFAULT"
    gs = rnd.choice([1e-2, 1.0, 1.0])
    cfg = G.rand_config(rnd, grad_scale=gs, allow_iterative=False, dtype_pair=(pdt, fdt), well_conditioned=True, max_dim_choices=(2, 3, 4, 5, 1024))
    from .c06 import _tame

    _tame(cfg)
    min_order = 1
    for _ in range(200):
        shapes = G.rand_shapes(rnd, n_params=rnd.randint(2, 5), max_order=4, max_numel=150, min_order=min_order)
        if mode in ("fsdp", "hsdp"):
            cut_kind = rnd.choice(["flat", "flat", "arbitrary"])
            ranges = _flat_ranges(shapes, Sn) if cut_kind == "flat" else _arbitrary_ranges(rnd, shapes, Sn)
            ok = all(_blocks_on_rank(G, cfg, shapes, ranges, s) >= max(1, Gs) for s in range(Sn))
        else:
            cut_kind = "dim0"
            ranges = None
            ok = all(sum(G.n_blocks(_local_shape(sh, Sn, s), cfg["max_preconditioner_dim"], cfg["use_merge_dims"]) for sh in shapes if _local_shape(sh, Sn, s)[0] > 0) >= max(1, Gs) for s in range(Sn))
        total = sum(math.prod(s) for s in shapes)
        if ok and total >= Sn:
            break
    else:
        raise Inconclusive("generator could not find a layout with a block on every rank")
    T = rnd.randint(4, 8)
    pk, pres = G.rand_presence(rnd, len(shapes), T, kind=rnd.choice(["all", "all", "never_one", "toggle", "random", "bursts", "all_absent_steps", "rotate"]))
    exact = (not replicated) or (COMM[comm] == "float32" and pdt == "float32")
    pdts = None
    if pdt == "float32" and (force_mixed or rnd.random() < 0.3):
        # one param group holding parameters of different dtypes (bfloat16 weights next to float32 ones): block dtypes,
        # buffer slots and the communication dtype are per group, the arithmetic per block
        pdts = [rnd.choice(["bfloat16", "float32"]) for _ in shapes]
        pdts[rnd.randrange(len(shapes))] = "bfloat16"
        pdts[(pdts.index("bfloat16") + 1) % len(shapes)] = "float32"
        if len(set(pdts)) < 2:
            pdts = None
    # a parameter that never receives a gradient may just as well be frozen (requires_grad=False) inside a trainable group
    frozen = [j for j in range(len(shapes)) if not any(pres[t_][j] for t_ in range(T))] if rnd.random() < 0.6 else []
    # the default num_trainers_per_group=-1 means "the whole replicate group"
    g_arg = -1 if (replicated and Gs == R and rnd.random() < 0.5) else Gs
    # scheduler edits of param_groups between steps, identical on every rank and in the serial twin (own stream: other draws unchanged)
    rnd_e = rng_for(*case["seed"], "c07edits")
    edits = []
    for _ in range(rnd_e.choice([0, 0, 1, 2, 3])):
        key = rnd_e.choice(["lr", "lr", "weight_decay", "momentum"])
        if (key == "momentum" and cfg["momentum"] == 0.0) or (key == "weight_decay" and cfg["weight_decay"] == 0.0):
            continue
        val = {"lr": rnd_e.choice([0.5, 2.0, 0.0]) * cfg["lr"], "weight_decay": rnd_e.choice([0.0, 0.5, 2.0]) * cfg["weight_decay"], "momentum": rnd_e.choice([0.4, 0.7])}[key]
        edits.append([rnd_e.randrange(1, T), 0, key, val])
    return {"edits": sorted(edits), "frozen": frozen, "G_arg": g_arg, "pdts": pdts, "mode": mode, "R": R, "S": Sn, "G": Gs, "comm": comm, "communicate_params": cp, "cfg": cfg, "shapes": shapes, "ranges": ranges, "cut_kind": cut_kind, "T": T, "presence_kind": pk, "presence": pres, "grad_scale": gs, "exact": exact, "grad_kind": rnd.choice(["dense", "dense", "sparse"])}


def _flat_ranges(shapes, Sn):
    """FSDP flat-parameter sharding: concatenate, pad, chunk; ranges[s][i] = (start, end) of parameter i on shard rank s"""
    numels = [math.prod(s) for s in shapes]
    offs = [0]
    for n in numels:
        offs.append(offs[-1] + n)
    per = -(-offs[-1] // Sn)
    out = []
    for s in range(Sn):
        row = []
        for i in range(len(shapes)):
            lo, hi = max(offs[i], s * per), min(offs[i + 1], (s + 1) * per)
            row.append((lo - offs[i], hi - offs[i]) if hi > lo else (0, 0))
        out.append(row)
    return out


def _arbitrary_ranges(rnd, shapes, Sn):
    out = [[None] * len(shapes) for _ in range(Sn)]
    for i, sh in enumerate(shapes):
        n = math.prod(sh)
        cuts = sorted(rnd.randint(0, n) for _ in range(Sn - 1))
        b = [0] + cuts + [n]
        for s in range(Sn):
            out[s][i] = (b[s], b[s + 1]) if b[s + 1] > b[s] else (0, 0)
    return out


def _blocks_on_rank(G, cfg, shapes, ranges, s):
    nb = 0
    for i, sh in enumerate(shapes):
        a, b = ranges[s][i]
        for (_, _, shp) in one_min_decomposition(tuple(sh), a, b):
            nb += G.n_blocks(list(shp), cfg["max_preconditioner_dim"], cfg["use_merge_dims"])
    return nb


def _local_shape(sh, Sn, s):
    """torch.chunk semantics along dim 0"""
    n = sh[0]
    per = -(-n // Sn)
    lo, hi = min(n, s * per), min(n, (s + 1) * per)
    # torch.chunk yields ceil(n/per) chunks; ranks beyond hold 0 rows
    return [max(0, hi - lo)] + list(sh[1:])


def _full_grad(torch, G, S, seed, t, j):
    dt = getattr(torch, S["pdts"][j] if S.get("pdts") else S["cfg"]["param_dtype"])
    return G.grad_for(torch, tgen(*seed, "g", t, j), S["shapes"][j], dt, S["grad_kind"], S["grad_scale"] * (1 + j))


# ------------------------------------------------------------------------------------------------ rank program
def rank_program(ds, torch, S, seed, rank, world):
    import torch.distributed as dist
    from torch.distributed.device_mesh import init_device_mesh

    from .. import gen as G

    mode, R, Sn = S["mode"], S["R"], S["S"]
    cfg = S["cfg"]
    dt = getattr(torch, cfg["param_dtype"])
    full = [p.detach() for p in G.make_params(torch, S["shapes"], dt, tgen(*seed, "init"), scale=S["grad_scale"])]
    if S.get("pdts"):
        full = [f.to(getattr(torch, d)) for f, d in zip(full, S["pdts"])]
    comm_kw = dict(communication_dtype=getattr(ds.CommunicationDType, S["comm"]), num_trainers_per_group=S.get("G_arg", S["G"]), communicate_params=S["communicate_params"])
    if mode in ("hsdp", "hybrid"):
        mesh = init_device_mesh("cpu", (R, Sn), mesh_dim_names=("replicate", "shard"))
        srank = mesh.get_local_rank(1)
    elif mode == "fully":
        mesh = init_device_mesh("cpu", (Sn,))
        srank = rank
    else:
        mesh, srank = None, rank
    twin_items = []  # (param index, slice spec into the local shard, twin parameter)
    if mode in ("fsdp", "hsdp"):
        from distributed_shampoo.shampoo_types import FSDPParameterMetadata
        from torch.distributed.fsdp import ShardingStrategy

        params, md = [], {}
        for i, f in enumerate(full):
            a, b = S["ranges"][srank][i]
            p = torch.nn.Parameter(f.flatten()[a:b].clone())
            params.append(p)
            md[p] = FSDPParameterMetadata(fqn=f"p{i}", shape=torch.Size(S["shapes"][i]), numel=f.numel(), start_idx=a, end_idx=b, sharding_strategy=ShardingStrategy.HYBRID_SHARD if mode == "hsdp" else ShardingStrategy.FULL_SHARD)
            for (x, y, shp) in one_min_decomposition(tuple(S["shapes"][i]), a, b):
                twin_items.append((i, (x - a, y - a, shp), torch.nn.Parameter(f.flatten()[x:y].clone().view(shp))))
        dcfg = ds.FSDPShampooConfig(param_to_metadata=md) if mode == "fsdp" else ds.HSDPShampooConfig(param_to_metadata=md, device_mesh=mesh, **comm_kw)
        local = lambda p: p  # noqa
    else:
        from torch.distributed.tensor import DTensor, Replicate, Shard

        from distributed_shampoo.shampoo_types import HybridShardShampooConfig

        pl = [Shard(0)] if mode == "fully" else [Replicate(), Shard(0)]

        def loc(t_):
            ch = list(torch.chunk(t_, Sn, dim=0))
            return ch[srank].clone() if srank < len(ch) else t_.new_zeros((0,) + tuple(t_.shape[1:]))

        mk = lambda t_, f: DTensor.from_local(t_, mesh, pl, run_check=False, shape=f.shape, stride=f.stride())  # noqa
        params = [torch.nn.Parameter(mk(loc(f), f)) for f in full]
        for i, f in enumerate(full):
            lt = loc(f)
            if lt.numel() > 0:
                twin_items.append((i, None, torch.nn.Parameter(lt.clone())))
        dcfg = ds.FullyShardShampooConfig() if mode == "fully" else HybridShardShampooConfig(device_mesh=mesh, **comm_kw)
        local = lambda p: p.to_local()  # noqa
    for j in S.get("frozen", ()):
        params[j].requires_grad_(False)
        for (i, _, q) in twin_items:
            if i == j:
                q.requires_grad_(False)
    opt = G.build_optimizer(ds, torch, cfg, params, distributed_config=dcfg)
    twin = G.build_optimizer(ds, torch, cfg, [q for _, _, q in twin_items]) if twin_items else None
    hist = {"shards": [], "bitwise_steps": 0, "tolerance_steps": 0, "srank": srank}
    comm_u = float(torch.finfo(getattr(torch, COMM[S["comm"]])).eps)
    comm_sub = 2 * float(torch.finfo(getattr(torch, COMM[S["comm"]])).smallest_normal) * comm_u  # spacing of subnormals (float16 updates underflow)
    for t in range(S["T"]):
        world.iteration(t)
        olds = [local(p).detach().clone() for p in params]
        for i, p in enumerate(params):
            present = S["presence"][t][i]
            g = _full_grad(torch, G, S, seed, t, i) if present else None
            if mode in ("fsdp", "hsdp"):
                a, b = S["ranges"][srank][i]
                p.grad = None if (g is None or b <= a) else g.flatten()[a:b].clone()
            else:
                p.grad = None if g is None else mk(loc(g), full[i])
        for (i, spec, q) in twin_items:
            present = S["presence"][t][i]
            g = _full_grad(torch, G, S, seed, t, i) if present else None
            if not S["exact"]:
                with torch.no_grad():
                    src = local(params[i]).detach()
                    q.copy_(src[spec[0] : spec[1]].view(spec[2]) if spec is not None else src)
            if g is None:
                q.grad = None
            elif spec is not None:
                a, _ = S["ranges"][srank][i]
                q.grad = g.flatten()[a + spec[0] : a + spec[1]].clone().view(spec[2])
            else:
                q.grad = loc(g)
        for e in S.get("edits", []):
            if e[0] == t:
                opt.param_groups[e[1]][e[2]] = e[3]
                if twin is not None:
                    twin.param_groups[e[1]][e[2]] = e[3]
                hist["edits_applied"] = hist.get("edits_applied", 0) + 1
        opt.step()
        if twin is not None:
            twin.step()
        bit = True
        for (i, spec, q) in twin_items:
            mine = local(params[i]).detach()
            mine = mine[spec[0] : spec[1]] if spec is not None else mine
            want = q.detach().reshape(mine.shape)
            if beq(mine, want):
                continue
            bit = False
            old = olds[i][spec[0] : spec[1]] if spec is not None else olds[i]
            upd = (want.double() - old.reshape(want.shape).double()).abs()
            if S["exact"]:
                tol = 1e-6 * (upd + upd.pow(2).mean().sqrt()) + 4 * float(torch.finfo(mine.dtype).eps) * want.double().abs()
            elif S["communicate_params"]:
                tol = 4 * comm_u * want.double().abs() + 1e-6 * upd + comm_sub
            else:
                tol = 4 * comm_u * upd + 4 * float(torch.finfo(mine.dtype).eps) * want.double().abs() + comm_sub
            r = float(((mine.double() - want.double()).abs() / (tol + 1e-300)).max())
            if not r <= 1.0:
                raise Violation(f"step {t + 1}: rank {rank} (shard rank {srank}): the shard of parameter {i} {'elements ' + str(spec[:2]) if spec else ''} differs from the serial optimizer run on that sub-tensor (deviation/tolerance {r:.3g})", step=t + 1, rank=rank, param=i, kind="twin_mismatch", sub_tensor=None if spec is None else {"range_in_shard": list(spec[:2]), "shape": list(spec[2])})
        hist["bitwise_steps" if bit else "tolerance_steps"] += 1
        # quantisation fingerprint of the communicated quantity (no twin involved): with a 16-bit communication dtype every
        # rank applies values that went through that dtype - the applied update (updates mode) resp. the new parameter
        # (parameters mode) must be representable in exactly that dtype, up to the resolution of observing W_new - W_old
        if mode in ("hsdp", "hybrid") and COMM[S["comm"]] != "float32":
            cdt = getattr(torch, COMM[S["comm"]])
            for i, p in enumerate(params):
                new_ = local(p).detach()
                if not new_.numel() or not S["presence"][t][i]:
                    continue
                hist["fingerprints"] = hist.get("fingerprints", 0) + 1
                if S["communicate_params"]:
                    if not beq(new_, new_.to(cdt).to(new_.dtype)):
                        raise Violation(f"step {t + 1}: rank {rank}: parameter {i} was communicated as {S['comm']} but its new value is not representable in that dtype", step=t + 1, rank=rank, param=i, kind="comm_dtype_fingerprint")
                else:
                    delta = new_.double() - olds[i].double()
                    q = delta.to(cdt).double()
                    res = 8 * float(torch.finfo(new_.dtype).eps) * (new_.double().abs() + olds[i].double().abs()) + comm_sub
                    bad = (delta - q).abs() > res
                    if bool(bad.any()):
                        raise Violation(f"step {t + 1}: rank {rank}: the update applied to parameter {i} was communicated as {S['comm']} but is not representable in that dtype (|delta - round(delta)| up to {float((delta - q).abs().max()):.3g})", step=t + 1, rank=rank, param=i, kind="comm_dtype_fingerprint")
        # parameters with an empty local shard / absent gradient must not change
        for i, p in enumerate(params):
            if local(p).numel() and (not S["presence"][t][i]) and not beq(local(p).detach(), olds[i]):
                raise Violation(f"step {t + 1}: rank {rank}: parameter {i} has no gradient but its shard changed", step=t + 1, rank=rank, param=i, kind="absent_changed")
        hist["shards"].append([local(p).detach().clone() for p in params])
    from ..distlib import collect_placement, live_buffer_geometry

    hist["placement"] = collect_placement(opt, params)
    hist["buffers"] = live_buffer_geometry(opt, params) if mode in ("hsdp", "hybrid") else None
    hist["rrank"] = mesh.get_local_rank(0) if mode in ("hsdp", "hybrid") else 0
    return hist


def run_sharded(case, prop_id):
    ds = import_repo()
    import torch

    from .. import ranksim

    S = make_setup(case)
    W = S["R"] * S["S"]
    counters = {"evals": 0, "bitwise_steps": 0, "tolerance_steps": 0, "replica_comparisons": 0, "collectives_logged": 0, "group_creations_logged": 0, "shards_compared": 0, "set_interleavings": []}
    desc = {k: S[k] for k in ("frozen", "G_arg", "pdts", "mode", "R", "S", "G", "comm", "communicate_params", "cfg", "shapes", "ranges", "cut_kind", "presence_kind", "presence", "T")}
    ledger_excerpt = None
    for il in range(case["interleavings"]):
        world = ranksim.World(W, interleave_seed=hash((tuple(map(str, case["seed"])), il)) & 0xFFFFFF)
        from ..common import KernelObserver

        with KernelObserver() as kobs:
            results = world.run(lambda rank, w: rank_program(ds, torch, S, case["seed"], rank, w))
        if world.errors and kobs.nonfinite_from_finite and any(type(e[0]).__name__ == "PreconditionerValueError" for e in world.errors.values()):
            counters["aborted_lapack_returned_nonfinite"] = counters.get("aborted_lapack_returned_nonfinite", 0) + 1
            continue
        counters["evals"] += 1
        counters["collectives_logged"] += world.n_collectives()
        counters["group_creations_logged"] += sum(len(c) for c in world.creations.values())
        counters["set_interleavings"].append(f"{case['id']}:{world.interleaving_signature()}")
        ledger_excerpt = world.excerpt()
        if world.errors:
            r = sorted(world.errors)[0]
            e = world.errors[r][0]
            if isinstance(e, Violation):
                e.witness.update(desc, interleaving=il)
            raise e
        try:
            world.check_ledger(f"{S['mode']} R={S['R']} S={S['S']} G={S['G']}")
        except Violation as v:
            v.witness.update(desc, interleaving=il)
            raise
        if len(results) != W:
            raise Inconclusive("a rank did not finish although no error or deadlock was recorded")
        for r in range(W):
            counters["bitwise_steps"] += results[r]["bitwise_steps"]
            counters["tolerance_steps"] += results[r]["tolerance_steps"]
            counters["shards_compared"] += S["T"] * len(S["shapes"])
            counters["schedule_edits_applied"] = counters.get("schedule_edits_applied", 0) + results[r].get("edits_applied", 0)
            counters["comm_dtype_fingerprints"] = counters.get("comm_dtype_fingerprints", 0) + results[r].get("fingerprints", 0)
        # replicas: same shard rank, different replicate index -> bit-identical
        if S["R"] >= 2:
            for r in range(W):
                for r2 in range(r + 1, W):
                    if results[r]["srank"] == results[r2]["srank"]:
                        for t in range(S["T"]):
                            for i, (a, b) in enumerate(zip(results[r]["shards"][t], results[r2]["shards"][t])):
                                counters["replica_comparisons"] += 1
                                if not beq(a, b):
                                    raise Violation(f"step {t + 1}: shard of parameter {i} differs between replicas (ranks {r} and {r2})", step=t + 1, param=i, kind="replica_mismatch", **desc)
    midrow = empty = False
    if S["ranges"]:
        for s in range(S["S"]):
            for i, sh in enumerate(S["shapes"]):
                a, b = S["ranges"][s][i]
                if b <= a:
                    empty = True
                elif a % sh[-1] or b % sh[-1]:
                    midrow = True
    else:
        for s in range(S["S"]):
            for sh in S["shapes"]:
                if _local_shape(sh, S["S"], s)[0] == 0:
                    empty = True
                elif sh[0] % S["S"]:
                    midrow = True
    nontrivial = midrow or empty or S["R"] >= 2
    sig = [S["mode"], S["R"], S["S"], S["G"], S["comm"], S["communicate_params"], S["cut_kind"], midrow, empty, S["cfg"]["precond"]["kind"], (S["cfg"]["grafting"] or {}).get("type", "none"), S["presence_kind"], S["cfg"]["param_dtype"], bool(S.get("pdts"))]
    counters["cases_with_empty_shard"] = int(empty)
    counters["cases_with_uneven_cut"] = int(midrow)
    return {"counters": counters, "sigs": [sig] if nontrivial else [], "sample": dict({k: desc[k] for k in ("mode", "R", "S", "G", "comm", "communicate_params", "shapes", "ranges", "cut_kind", "presence_kind", "T")}, ledger=ledger_excerpt)}


def run_case(case):
    if case["mode"] == "real_fsdp":
        from . import c07_real

        return c07_real.run(case)
    return run_sharded(case, ID)


def conclusive(agg, results, tier):
    need = {"shards_compared": 3000, "bitwise_steps": 500, "replica_comparisons": 500, "collectives_logged": 500, "cases_with_empty_shard": 10, "cases_with_uneven_cut": 30}
    low = {k: agg.get(k, 0) for k in need if agg.get(k, 0) < need[k]}
    return f"too few observations: {low}" if low else None
