"""Real torch FSDP (use_orig_params=True) on gloo processes: thorough-tier family of C07."""
from __future__ import annotations

import json
import os
import shutil
import subprocess
import sys
import tempfile

from ..common import HOME, Inconclusive, Violation, rng_for


def run(case, kind="fsdp1"):
    from .. import gen as G

    rnd = rng_for(*case["seed"], "real")
    if kind == "fsdp1":
        mode, W, R, Sn, Gs = rnd.choice([("fsdp", 2, 1, 2, 1), ("fsdp", 3, 1, 3, 1), ("fsdp", 4, 1, 4, 1), ("hsdp", 4, 2, 2, 2), ("hsdp", 4, 2, 2, 1)])  # (a shard dimension of 1 leaves the parameters unflattened)
        module = "vf.fsdp_rank"
    else:  # real fully_shard (FSDP2) parameter layout
        mode, W, R, Sn, Gs = rnd.choice([("fully", 2, 1, 2, 1), ("fully", 3, 1, 3, 1), ("fully", 4, 1, 4, 1), ("hybrid", 4, 2, 2, 2), ("hybrid", 4, 2, 2, 1), ("hybrid", 2, 2, 1, 2)])
        module = "vf.fs2_rank"
    cfg = G.rand_config(rnd, grad_scale=1.0, allow_iterative=False, dtype_pair=("float32", "float32"), well_conditioned=True, max_dim_choices=(2, 3, 4, 1024))
    from .c06 import _tame

    _tame(cfg)
    shapes = G.rand_shapes(rnd, n_params=rnd.randint(3, 5), max_order=3, max_numel=60, min_order=1)
    if kind != "fsdp1":
        # every shard rank needs at least G blocks: make the first parameter tall enough for all shard ranks
        shapes[0] = [max(shapes[0][0], 2 * Sn)] + shapes[0][1:]
        shapes.append([2 * Sn, 2])
    T = 4
    pk, pres = G.rand_presence(rnd, len(shapes), T, kind=rnd.choice(["all", "toggle", "bursts"]))
    S = {"presence": pres, "mode": mode, "W": W, "R": R, "S": Sn, "G": Gs, "comm": rnd.choice(["DEFAULT", "FP32"]), "communicate_params": rnd.random() < 0.5, "cfg": cfg, "shapes": shapes, "T": 4, "seed": case["seed"], "grad_scale": 1.0}
    d = tempfile.mkdtemp(prefix="vf_fsdp_")
    counters = {"evals": 1, "real_fsdp_runs": 1, "real_metadata_checked": 0, "real_steps_bitwise": 0, "real_steps_tolerance": 0, "real_sub_tensors": 0}
    try:
        json.dump(S, open(os.path.join(d, "setup.json"), "w"))
        procs = [subprocess.Popen([sys.executable, "-m", module, os.path.join(d, "setup.json"), str(r), d], cwd=HOME, env=dict(os.environ), stdout=open(os.path.join(d, f"out{r}.txt"), "w"), stderr=subprocess.STDOUT) for r in range(W)]
        timed_out = False
        for p in procs:
            try:
                p.wait(timeout=300)
            except subprocess.TimeoutExpired:
                timed_out = True
        for p in procs:
            if p.poll() is None:
                p.kill()
                p.wait()
        desc = {"family": "real_fsdp" if kind == "fsdp1" else "real_fully_shard", "mode": mode, "W": W, "R": R, "S": Sn, "G": Gs, "shapes": shapes, "cfg": cfg}
        res = {}
        for r in range(W):
            f = os.path.join(d, f"result_{r}.json")
            if os.path.exists(f):
                res[r] = json.load(open(f))
        for r, o in sorted(res.items()):
            real = [v for v in o["violations"] if not v.startswith("harness:")]
            if real:
                raise Violation(f"real FSDP ({mode} W={W}): {real[0]}", rank=r, all=real[:5], ranges=o.get("ranges"), **desc)
        if timed_out or len(res) != W or any(v.startswith("harness:") for o in res.values() for v in o["violations"]):
            tails = {r: open(os.path.join(d, f"out{r}.txt")).read()[-500:] for r in range(W)}
            raise Inconclusive(f"real FSDP run did not produce a verdict (timeout={timed_out}, results={sorted(res)}): {tails}")
        for o in res.values():
            counters["real_metadata_checked"] += o.get("metadata_checked", 0) + o.get("layout_checked", 0)
            counters["real_steps_bitwise"] += o["steps_bitwise"]
            counters["real_steps_tolerance"] += o["steps_tolerance"]
            counters["real_sub_tensors"] += o.get("sub_tensors", 0)
        return {"counters": counters, "sigs": [[desc["family"], mode, W, Gs]], "sample": {k: desc[k] for k in ("family", "mode", "W", "R", "S", "G", "shapes")} | {"ranges_rank0": res[0].get("ranges")}}
    finally:
        shutil.rmtree(d, ignore_errors=True)
