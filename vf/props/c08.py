"""C08 - fully_shard / hybrid-shard Shampoo equals serial Shampoo on local shards.

Real code: FullyShardDistributor / HybridShardDistributor inside DistributedShampoo on simulated ranks, parameters built as
DTensor.from_local(chunk, mesh, [Shard(0)] | [Replicate(), Shard(0)]) with torch.chunk semantics (ranks beyond the chunk count hold
zero rows).  Oracle: serial twin over the non-empty local tensors; replica / ledger / deadlock monitors for HybridShard.
The sharded-world runner is shared with C07 (vf/props/c07.py)."""
from __future__ import annotations

from . import c07

ID = "C08"
LEVEL = "exploration"
RULE = (
    "one case = one configuration: parameters of order 1..4 sharded on dim 0 with torch.chunk semantics over 1-D meshes of 1..8 ranks (FullyShard) or R x S meshes "
    "(HybridShard, R*S <= 8, num_trainers_per_group dividing R, communication dtype / communicate_params), empty local shards placed anywhere in the group, absent "
    "DTensor gradients, generated optimizer configuration, 4-8 steps; each world run is one evaluation. Non-trivial: some rank holds an empty local shard, or rows "
    "are uneven, or R >= 2. Distinct by (mode, R, S, G, comm, has empty shard, uneven rows, config signature, presence class)."
)
ASSUMPTIONS = [
    "ranks are threads on torch's threaded process group; DTensor parameters are built with from_local (no fully_shard module wrapping, no GPU)",
    "every rank holds at least num_trainers_per_group blocks",
    "reduced-precision communication is judged by replica bit-equality plus |shard - resynchronised twin| <= 4*u_comm*(|update| resp. |W|) elementwise",
]
TIMEOUT = c07.TIMEOUT
CONFIRM_BY_RERUN = True  # ranks are threads here: an alarm must reproduce in a fresh process (vf/main.py)
ANCHORS = {
    "distributed_shampoo/utils/shampoo_fully_shard_distributor.py": ["FullyShardDistributor._get_params_or_grads", "FullyShardDistributor._construct_local_block_info_list"],
    "distributed_shampoo/utils/shampoo_hybrid_shard_distributor.py": ["HybridShardDistributor.__init__", "HybridShardDistributor._get_params_or_grads", "HybridShardDistributor.update_params", "HybridShardDistributor.merge_and_block_gradients", "HybridShardDistributor._allocate_zeros_distributed_tensor"],
}
MODES = ("fully", "hybrid")


def gen_cases(tier, seed):
    n = 200 if tier == "quick" else 2500
    cases = [{"id": f"{MODES[i % 2]}{i}", "mode": MODES[i % 2], "seed": [seed, i], "interleavings": 1 if tier == "quick" else 2} for i in range(n)]
    if tier == "thorough":  # parameters built by the REAL fully_shard (FSDP2) on gloo processes
        cases += [{"id": f"real{i}", "mode": "real_fully_shard", "seed": [seed, "real", i], "interleavings": 1} for i in range(10)]
    return cases


def run_case(case):
    if case["mode"] == "real_fully_shard":
        from . import c07_real

        return c07_real.run(case, kind="fsdp2")
    return c07.run_sharded(case, ID)


def conclusive(agg, results, tier):
    need = {"shards_compared": 3000, "bitwise_steps": 500, "replica_comparisons": 500, "collectives_logged": 500, "cases_with_empty_shard": 10}
    low = {k: agg.get(k, 0) for k in need if agg.get(k, 0) < need[k]}
    return f"too few observations: {low}" if low else None
