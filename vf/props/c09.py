"""C09 - checkpoint save/restore at any step resumes the exact trajectory.

Real code: distributed_state_dict / load_distributed_state_dict, flatten/unflatten, OptimizerModule state round trip, serial layout
(the DDP / DTensor layout is exercised by the 'ddp' family on simulated ranks).
Oracle: for EVERY stop step k of a run: save -> torch.save/torch.load -> fresh optimizer over copies of the parameters -> load ->
continue; parameters and every state tensor (independent traversal of optimizer.state) must equal the uninterrupted run bit for bit
at every later step.  Key uniqueness per parameter; negative loads (each single flat key deleted, unknown parameter, param-group
mismatch) must raise."""
from __future__ import annotations

import copy
import io

from ..common import KernelObserver, OutOfDomain, Violation, import_repo, rng_for, sha, tgen
from . import c01

ID = "C09"
LEVEL = "fault_enumeration"
RULE = (
    "one case = one generated run of T in 4..12 steps (Shampoo/SOAP, all grafting types, momentum, filtering, 1-3 param groups, blocked parameters, blocks "
    "without Kronecker factors, absent gradients, scheduler edits); the crash-point space of the run is enumerated completely: resume from every k in 0..T. "
    "Every (run, k) resume is one evaluation. Negative loads: every single flat key of one parameter deleted in turn, unknown parameter key, param-group "
    "count / key mismatch. Non-trivial: the resume point lies after a mask change or between two refreshes and >=1 step follows. "
    "Distinct by (config signature, k class)."
)
ASSUMPTIONS = [
    "the state dict is round-tripped through torch.save / torch.load (BytesIO) for every stop step, and through torch.distributed.checkpoint (on-disk format, in-place load into the fresh optimizer's own state dict as documented in the README) for two stop steps per run (quick) / all (thorough), single process; DCP resharding across world sizes is not exercised",
    "chained resumes (resume at k1, save again at k2 from the resumed optimizer, resume again): 2 (quick) / 8 (thorough) random pairs per run; the second checkpoint must equal the uninterrupted run's checkpoint at k2 key for key and bit for bit",
    "an exception raised inside torch.distributed.checkpoint itself is counted (dcp_machinery_failed) and never a verdict; an exception from load_distributed_state_dict on the loaded dict is handled like any other",
    "scheduler edits are part of the history: the resumed run receives edits scheduled at steps >= k; earlier edits must arrive through the saved param_groups",
    "bitwise equality is the oracle: both sides execute the same kernels on the same layouts",
]
EXHAUSTIVE = {"quick": "every stop step k in 0..T of every generated run", "thorough": "every stop step k in 0..T of every generated run"}
TIMEOUT = {"quick": 1200, "thorough": 5400}
CONFIRM_BY_RERUN = True  # ranks are threads here: an alarm must reproduce in a fresh process (vf/main.py)
ANCHORS = {
    "distributed_shampoo/distributed_shampoo.py": ["DistributedShampoo.distributed_state_dict", "DistributedShampoo.load_distributed_state_dict", "DistributedShampoo._construct_param_group_key"],
    "distributed_shampoo/utils/shampoo_checkpoint_utils.py": ["flatten", "unflatten", "update_param_state_dict_object", "extract_state_dict_content"],
    "optimizer_modules.py": ["OptimizerModule.state_dict", "OptimizerModule.load_state_dict"],
}


def gen_cases(tier, seed):
    n = 96 if tier == "quick" else 1500
    cases = [{"id": f"run{i}", "seed": [seed, i], "tier": tier} for i in range(n)]
    for i in range(48 if tier == "quick" else 400):
        cases.append({"id": f"ddp{i}", "family": "ddp", "seed": [seed, "ddp", i]})
    return cases


def make_run(case):
    from .. import gen as G

    rnd = rng_for(*case["seed"], "c09")
    run = c01.make_run({"id": case["id"], "seed": case["seed"] + ["c09"]})
    run["T"] = rnd.randint(4, 12)
    T = run["T"]
    n = len(run["shapes"])
    pk, run["presence"] = G.rand_presence(rnd, n, T)
    run["presence_kind"] = pk
    run["edits"] = G.rand_schedule(rnd, T, len(run["groups"]) if run["groups"] else 1, run["cfg"])
    cfg = run["cfg"]
    # blocks that carry no Kronecker factor: 0-D parameters with merge off / all dims ignored
    r = rnd.random()
    if r < 0.15:
        run["shapes"][0] = []
        cfg["use_merge_dims"] = False
    elif r < 0.3 and cfg["inv_root_override"] == 0:
        cfg["precond"]["ignored_dims"] = [0, 1, 2, 3]
    return run


def walk_state(obj, torch, OM, path=()):
    """independent traversal of optimizer.state[p]: yields (path, tensor)"""
    if isinstance(obj, torch.Tensor):
        yield path, obj
    elif isinstance(obj, OM):
        for k, v in obj.__dict__.items():
            yield from walk_state(v, torch, OM, path + (k,))
    elif isinstance(obj, dict):
        for k, v in obj.items():
            yield from walk_state(v, torch, OM, path + (k,))
    elif isinstance(obj, (list, tuple)):
        for i, v in enumerate(obj):
            yield from walk_state(v, torch, OM, path + (i,))


def snapshot(opt, params, torch, OM):
    out = []
    for i, p in enumerate(params):
        out.append((("param", i), sha(p.detach())))
        for path, t in walk_state(opt.state.get(p, {}), torch, OM):
            out.append(((i,) + path, sha(t)))
    return out


def _set_grads(torch, G, params, run, gg_stream, t):
    for j, p in enumerate(params):
        g = gg_stream[t][j]
        p.grad = None if g is None else g.clone()


def _ddp_rank(ds, torch, OM, S, seed, stops, rank, world):
    """uninterrupted DDP run on this rank; at each stop step: save -> torch.save/load -> fresh DDP optimizer -> load -> continue
    to the end, comparing bit for bit.  All ranks take the same stop steps (optimizer construction is collective)."""
    from .. import gen as G
    from ..distlib import ddp_config
    from . import c06

    cfg = S["cfg"]
    dt = getattr(torch, cfg["param_dtype"])
    init = c06.init_params(torch, G, S, seed)
    dcfg = lambda: ddp_config(ds, S["comm"], S.get("G_arg", S["G"]), S["communicate_params"])  # noqa
    names = lambda P: [(f"p{i}", p) for i, p in enumerate(P)]  # noqa

    def snap(opt, ps):
        out = []
        for i, p in enumerate(ps):
            out.append((("param", i), sha(p.detach())))
            for path, t in walk_state(opt.state.get(p, {}), torch, OM):
                out.append(((i,) + path, sha(t)))
        return out

    ps = [torch.nn.Parameter(p.detach().clone()) for p in init]
    opt = G.build_optimizer(ds, torch, cfg, ps, distributed_config=dcfg())
    # keys unique per parameter and block: the blocks this rank owns must be filed under pairwise distinct (parameter, block) ids
    from ..distlib import find_distributors

    for d_ in find_distributors(opt):
        ids_ = [tuple(bi.composable_block_ids) for bi in d_.local_block_info_list]
        if len(set(ids_)) != len(ids_):
            dup = sorted({i for i in ids_ if ids_.count(i) > 1})
            raise Violation(f"rank {rank}: two blocks owned by this rank are filed under the same state key {dup[0]} (the later one overwrites the earlier one in optimizer.state, so its tensors never reach a checkpoint)", rank=rank, kind="ddp_block_key_collision", ids=[list(map(str, i)) for i in ids_][:20])
    traj, saved = [], {}
    it = 0
    for t in range(S["T"]):
        world.iteration(it)
        it += 1
        for p, g in zip(ps, c06._grads(torch, G, S, seed, t)):
            p.grad = None if g is None else g.clone()
        opt.step()
        traj.append(snap(opt, ps))
        if t + 1 in stops:
            b = io.BytesIO()
            torch.save(opt.distributed_state_dict(key_to_param=iter(names(ps))), b)
            saved[t + 1] = (b.getvalue(), [p.detach().clone() for p in ps])
    stats = {"resumes": 0, "steps_after_resume": 0, "tensors_compared": 0, "dtensor_leaves": 0}
    for k in sorted(stops):
        blob, vals = saved[k]
        ps2 = [torch.nn.Parameter(v.clone()) for v in vals]
        o2 = G.build_optimizer(ds, torch, cfg, ps2, distributed_config=dcfg())
        sd = torch.load(io.BytesIO(blob), weights_only=False)
        stats["dtensor_leaves"] += sum(1 for st in sd["state"].values() for v in st.values() if hasattr(v, "to_local"))
        o2.load_distributed_state_dict(sd, key_to_param=iter(names(ps2)))
        stats["resumes"] += 1
        sn0 = snap(o2, ps2)  # the state right after loading is the state this rank had at k
        stats["loaded_state_compared"] = stats.get("loaded_state_compared", 0) + 1
        if sn0 != traj[k - 1]:
            bad = next((pa for (pa, ha), (pb, hb) in zip(sn0, traj[k - 1]) if pa != pb or ha != hb), "the number of state tensors")
            raise Violation(f"rank {rank}: resume from step {k}: right after loading, {bad} differs from the uninterrupted run at step {k} (DDP / DTensor state)", stop_step=k, step=k, rank=rank, tensor=str(bad))
        for t in range(k, S["T"]):
            world.iteration(it)
            it += 1
            for p, g in zip(ps2, c06._grads(torch, G, S, seed, t)):
                p.grad = None if g is None else g.clone()
            o2.step()
            stats["steps_after_resume"] += 1
            sn = snap(o2, ps2)
            stats["tensors_compared"] += len(sn)
            if [a for a, _ in sn] != [a for a, _ in traj[t]]:
                raise Violation(f"rank {rank}: resume from step {k}: the set of state tensors at step {t + 1} differs from the uninterrupted run", stop_step=k, step=t + 1, rank=rank)
            for (pa, ha), (_, hb) in zip(sn, traj[t]):
                if ha != hb:
                    raise Violation(f"rank {rank}: resume from step {k}: {pa} at step {t + 1} differs from the uninterrupted run (DDP / DTensor state)", stop_step=k, step=t + 1, rank=rank, tensor=[str(x) for x in pa])
    return stats


def _run_ddp(case):
    ds = import_repo()
    import torch
    from optimizer_modules import OptimizerModule as OM

    from .. import ranksim
    from . import c06

    S = c06.make_setup({"seed": case["seed"]})
    S["W"] = min(S["W"], 4)
    if S["W"] % S["G"]:
        S["G"] = max(d for d in range(1, S["W"] + 1) if S["W"] % d == 0 and d <= S["G"])
    S["G_arg"] = -1 if (S.get("G_arg") == -1 and S["G"] == S["W"]) else S["G"]
    S["T"] = min(S["T"], 7)
    rnd = rng_for(*case["seed"], "stops")
    stops = set(rnd.sample(range(1, S["T"]), min(2, S["T"] - 1)))
    world = ranksim.World(S["W"], interleave_seed=3)
    results = world.run(lambda rank, w: _ddp_rank(ds, torch, OM, S, case["seed"], stops, rank, w))
    desc = {"family": "ddp", "W": S["W"], "G": S["G"], "comm": S["comm"], "communicate_params": S["communicate_params"], "cfg": S["cfg"], "shapes": S["shapes"], "presence": S["presence"], "stops": sorted(stops)}
    if world.errors:
        r = sorted(world.errors)[0]
        e = world.errors[r][0]
        if isinstance(e, Violation):
            e.witness.update(desc)
        raise e
    try:
        world.check_ledger("DDP checkpoint resume")
    except Violation as v:
        v.witness.update(desc)
        raise
    counters = {"evals": 0, "ddp_resumes": 0, "ddp_steps_after_resume": 0, "ddp_dtensor_leaves_saved": 0, "tensors_compared": 0}
    for r, st in results.items():
        counters["ddp_resumes"] += st["resumes"]
        counters["evals"] += st["resumes"]
        counters["ddp_steps_after_resume"] += st["steps_after_resume"]
        counters["ddp_dtensor_leaves_saved"] += st["dtensor_leaves"]
        counters["ddp_loaded_state_compared"] = counters.get("ddp_loaded_state_compared", 0) + st.get("loaded_state_compared", 0)
        counters["tensors_compared"] += st["tensors_compared"]
    sig = ["ddp", S["W"], S["G"], S["comm"], S["communicate_params"], S["cfg"]["precond"]["kind"], (S["cfg"]["grafting"] or {}).get("type", "none")]
    return {"counters": counters, "sigs": [sig] if S["W"] >= 2 else [], "sample": {k: desc[k] for k in ("family", "W", "G", "comm", "shapes", "stops")}}


def run_case(case):
    if case.get("family") == "ddp":
        return _run_ddp(case)
    ds = import_repo()
    import torch
    from optimizer_modules import OptimizerModule as OM

    from .. import gen as G

    run = make_run(case)
    cfg = run["cfg"]
    dt = getattr(torch, cfg["param_dtype"])
    T = run["T"]
    counters = {"evals": 0, "resumes": 0, "steps_after_resume": 0, "tensors_compared": 0, "negative_loads": 0, "key_uniqueness_checked": 0, "resume_after_mask_change": 0, "resume_between_refreshes": 0}
    gg = tgen(*case["seed"], "grads")
    stream = [[G.grad_for(torch, gg, s, dt, run["grad_kind"], run["grad_scale"] * (1 + j)) if run["presence"][t][j] else None for j, s in enumerate(run["shapes"])] for t in range(T)]
    names = lambda P: [(f"p{i}", p) for i, p in enumerate(P)]  # noqa

    def fresh(values):
        ps = [torch.nn.Parameter(v.detach().clone()) for v in values]
        return ps, G.build_optimizer(ds, torch, cfg, ps, run["groups"])

    def apply_edits(opt, t):
        for e in run["edits"]:
            if e[0] == t and not (e[2] == "momentum" and opt.param_groups[e[1]]["momentum"] == 0.0):
                opt.param_groups[e[1]][e[2]] = e[3]

    init = G.make_params(torch, run["shapes"], dt, tgen(*case["seed"], "init"), scale=run["grad_scale"])
    params, opt = fresh(init)
    c01.execute.last_params = params
    desc = {"cfg": cfg, "shapes": run["shapes"], "groups": run["groups"], "T": T, "presence": run["presence"], "edits": run["edits"]}
    saved, traj = [], []
    obs = KernelObserver()

    def save():
        sd = opt.distributed_state_dict(key_to_param=iter(names(params)))
        # key uniqueness: one flat key per tensor reachable in optimizer.state[p]
        for i, p in enumerate(params):
            n_reach = sum(1 for _ in walk_state(opt.state.get(p, {}), torch, OM))
            counters["key_uniqueness_checked"] += 1
            if len(sd["state"].get(f"p{i}", {})) != n_reach:
                raise Violation(f"saved state of parameter {i} has {len(sd['state'][f'p{i}'])} flat keys but {n_reach} tensors are reachable in optimizer.state (a tensor is missing or two blocks share a key)", **desc)
        b = io.BytesIO()
        torch.save(sd, b)
        return b.getvalue(), [p.detach().clone() for p in params]

    try:
        with obs:
            saved.append(save())
            for t in range(T):
                apply_edits(opt, t)
                _set_grads(torch, G, params, run, stream, t)
                opt.step()
                traj.append(snapshot(opt, params, torch, OM))
                saved.append(save())
            # --- resume from every stop step
            for k in range(T + 1):
                blob, vals = saved[k]
                ps2, o2 = fresh(vals)
                o2.load_distributed_state_dict(torch.load(io.BytesIO(blob), weights_only=False), key_to_param=iter(names(ps2)))
                counters["resumes"] += 1
                counters["evals"] += 1
                if k >= 1:
                    snap = snapshot(o2, ps2, torch, OM)
                    counters["loaded_state_compared"] = counters.get("loaded_state_compared", 0) + 1
                    if snap != traj[k - 1]:
                        bad = next((pa for (pa, ha), (pb, hb) in zip(snap, traj[k - 1]) if pa != pb or ha != hb), "the number of state tensors")
                        raise Violation(f"resume from step {k}: right after loading, {bad} differs from the uninterrupted run at step {k}", stop_step=k, step=k, tensor=str(bad), **desc)
                if 0 < k < T and run["presence"][k - 1] != run["presence"][k]:
                    counters["resume_after_mask_change"] += 1
                for t in range(k, T):
                    apply_edits(o2, t)
                    _set_grads(torch, G, ps2, run, stream, t)
                    o2.step()
                    counters["steps_after_resume"] += 1
                    snap = snapshot(o2, ps2, torch, OM)
                    ref = traj[t]
                    counters["tensors_compared"] += len(ref)
                    if [a for a, _ in snap] != [a for a, _ in ref]:
                        raise Violation(f"resume from step {k}: the set of state tensors at step {t + 1} differs from the uninterrupted run", stop_step=k, step=t + 1, **desc)
                    for (pa, ha), (_, hb) in zip(snap, ref):
                        if ha != hb:
                            raise Violation(f"resume from step {k}: {pa} at step {t + 1} differs from the uninterrupted run", stop_step=k, step=t + 1, tensor=[str(x) for x in pa], **desc)
            thorough = case.get("tier") == "thorough"
            rx = rng_for(*case["seed"], "extra")

            def continue_and_compare(o, ps, k, what):
                if k >= 1:  # zero steps of continuation: the loaded state is the state the uninterrupted run had at k
                    snap = snapshot(o, ps, torch, OM)
                    counters["loaded_state_compared"] = counters.get("loaded_state_compared", 0) + 1
                    if [a for a, _ in snap] != [a for a, _ in traj[k - 1]]:
                        raise Violation(f"{what}: right after loading, the set of state tensors differs from the uninterrupted run at step {k}", stop_step=k, step=k, **desc)
                    for (pa, ha), (_, hb) in zip(snap, traj[k - 1]):
                        if ha != hb:
                            raise Violation(f"{what}: right after loading, {pa} differs from the uninterrupted run at step {k}", stop_step=k, step=k, tensor=[str(x) for x in pa], **desc)
                for t in range(k, T):
                    apply_edits(o, t)
                    _set_grads(torch, G, ps, run, stream, t)
                    o.step()
                    snap = snapshot(o, ps, torch, OM)
                    ref = traj[t]
                    counters["tensors_compared"] += len(ref)
                    if [a for a, _ in snap] != [a for a, _ in ref]:
                        raise Violation(f"{what}: the set of state tensors at step {t + 1} differs from the uninterrupted run", stop_step=k, step=t + 1, **desc)
                    for (pa, ha), (_, hb) in zip(snap, ref):
                        if ha != hb:
                            raise Violation(f"{what}: {pa} at step {t + 1} differs from the uninterrupted run", stop_step=k, step=t + 1, tensor=[str(x) for x in pa], **desc)

            # --- chained resumes: the checkpoint written by a RESUMED optimizer at k2 must equal the one the uninterrupted run wrote
            # at k2 (keys, tensors, param_groups) and must itself resume the trajectory
            pairs = [(a, b) for a in range(T + 1) for b in range(a + 1, T + 1)]
            rx.shuffle(pairs)
            for k1, k2 in pairs[: 8 if thorough else 2]:
                blob, vals = saved[k1]
                ps2, o2 = fresh(vals)
                o2.load_distributed_state_dict(torch.load(io.BytesIO(blob), weights_only=False), key_to_param=iter(names(ps2)))
                for t in range(k1, k2):
                    apply_edits(o2, t)
                    _set_grads(torch, G, ps2, run, stream, t)
                    o2.step()
                sd_res = o2.distributed_state_dict(key_to_param=iter(names(ps2)))
                sd_ref = torch.load(io.BytesIO(saved[k2][0]), weights_only=False)
                counters["chained_resumes"] = counters.get("chained_resumes", 0) + 1
                counters["evals"] += 1
                if sorted(sd_res["state"]) != sorted(sd_ref["state"]) or any(sorted(sd_res["state"][p_]) != sorted(sd_ref["state"][p_]) for p_ in sd_ref["state"]):
                    raise Violation(f"resumed at {k1}, saved again at {k2}: the second checkpoint's keys differ from the uninterrupted run's checkpoint at {k2}", stop_step=k1, second_stop=k2, **desc)
                for p_ in sd_ref["state"]:
                    for fk, v_ref in sd_ref["state"][p_].items():
                        if sha(sd_res["state"][p_][fk]) != sha(v_ref):
                            raise Violation(f"resumed at {k1}, saved again at {k2}: {p_} {fk} in the second checkpoint differs from the uninterrupted run's checkpoint at {k2}", stop_step=k1, second_stop=k2, **desc)
                if repr(sd_res["param_groups"]) != repr(sd_ref["param_groups"]):
                    raise Violation(f"resumed at {k1}, saved again at {k2}: param_groups of the second checkpoint differ from the uninterrupted run's", stop_step=k1, second_stop=k2, got=repr(sd_res["param_groups"])[:600], want=repr(sd_ref["param_groups"])[:600], **desc)
                b2 = io.BytesIO()
                torch.save(sd_res, b2)
                ps3, o3 = fresh([p.detach().clone() for p in ps2])
                o3.load_distributed_state_dict(torch.load(io.BytesIO(b2.getvalue()), weights_only=False), key_to_param=iter(names(ps3)))
                continue_and_compare(o3, ps3, k2, f"resumed at {k1}, saved again at {k2}, resumed again")

            # --- the documented torch.distributed.checkpoint flow: on-disk format, then an IN-PLACE load into the fresh optimizer's own
            # state dict (its tensors alias the optimizer's state), then load_distributed_state_dict of that same dict
            ks = list(range(T + 1))
            rx.shuffle(ks)
            for k in ks if thorough else ks[:2]:
                blob, vals = saved[k]
                import shutil
                import tempfile
                import warnings

                d_ = tempfile.mkdtemp(prefix="vf_c09_dcp_")
                try:
                    ps2, o2 = fresh(vals)
                    try:
                        with warnings.catch_warnings():
                            warnings.simplefilter("ignore")
                            import torch.distributed.checkpoint as dcp

                            dcp.save({"optim": torch.load(io.BytesIO(blob), weights_only=False)}, checkpoint_id=d_)
                            tmpl = {"optim": o2.distributed_state_dict(key_to_param=iter(names(ps2)))}
                            dcp.load(tmpl, checkpoint_id=d_)
                    except Exception as e:  # noqa  third-party machinery: counted, never a verdict
                        counters["dcp_machinery_failed"] = counters.get("dcp_machinery_failed", 0) + 1
                        counters.setdefault("dcp_failure_sample", 0)
                        run.setdefault("_dcp_err", f"{type(e).__name__}: {str(e)[:200]}")
                        continue
                    o2.load_distributed_state_dict(tmpl["optim"], key_to_param=iter(names(ps2)))
                    counters["dcp_resumes"] = counters.get("dcp_resumes", 0) + 1
                    counters["evals"] += 1
                    continue_and_compare(o2, ps2, k, f"torch.distributed.checkpoint save, in-place load into the fresh optimizer's state dict, resume from step {k}")
                finally:
                    shutil.rmtree(d_, ignore_errors=True)

            # --- negative loads on the final checkpoint
            blob, vals = saved[rng_for(*case["seed"], "neg").randrange(1, T + 1)]

            def must_raise(mutate, what):
                sd = torch.load(io.BytesIO(blob), weights_only=False)
                mutate(sd)
                ps3, o3 = fresh(vals)
                counters["negative_loads"] += 1
                try:
                    o3.load_distributed_state_dict(sd, key_to_param=iter(names(ps3)))
                except Exception:  # noqa
                    return
                raise Violation(f"a defective checkpoint loaded without raising: {what}", defect=what, **desc)

            sd0 = torch.load(io.BytesIO(blob), weights_only=False)
            for pname in list(sd0["state"].keys()):
                for fk in list(sd0["state"][pname].keys()):
                    must_raise(lambda sd, pname=pname, fk=fk: sd["state"][pname].pop(fk), f"flat key {fk} of {pname} deleted")
                # every sub-tree (block, module, attribute) deleted as a whole
                import json as _json

                prefixes = set()
                for fk in sd0["state"][pname]:
                    path = _json.loads(fk)
                    for n_ in range(1, len(path)):
                        prefixes.add(_json.dumps(path[:n_]))
                for pref in sorted(prefixes):
                    pl_ = _json.loads(pref)

                    def drop(sd, pname=pname, pl_=pl_):
                        for fk in [k for k in sd["state"][pname] if _json.loads(k)[: len(pl_)] == pl_]:
                            sd["state"][pname].pop(fk)

                    must_raise(drop, f"all entries under {pref} of {pname} deleted")
            must_raise(lambda sd: sd["state"].update({"unknown_param": copy.deepcopy(next(iter(sd["state"].values())))}), "state names an unknown parameter")
            must_raise(lambda sd: sd["param_groups"].update({"extra_group": copy.deepcopy(next(iter(sd["param_groups"].values())))}), "an extra param group")
            # the same parameters partitioned differently into the same number of groups must be refused
            if run["groups"] and len(run["groups"]) >= 2 and any(len(g["params"]) >= 2 for g in run["groups"]):
                import copy as _copy

                regrouped = _copy.deepcopy(run["groups"])
                big = max(range(len(regrouped)), key=lambda i: len(regrouped[i]["params"]))
                other = (big + 1) % len(regrouped)
                moved = regrouped[big]["params"].pop()  # keeps the alphabetically first name of every group
                regrouped[other]["params"].append(moved)
                regrouped[other]["params"].sort()
                if all(g["params"] for g in regrouped):
                    ps4 = [torch.nn.Parameter(v.detach().clone()) for v in vals]
                    o4 = G.build_optimizer(ds, torch, cfg, ps4, regrouped)
                    counters["negative_loads"] += 1
                    counters["regrouped_loads"] = counters.get("regrouped_loads", 0) + 1
                    try:
                        o4.load_distributed_state_dict(torch.load(io.BytesIO(blob), weights_only=False), key_to_param=iter(names(ps4)))
                    except Exception:  # noqa
                        pass
                    else:
                        raise Violation("a checkpoint loaded into an optimizer whose param groups partition the parameters differently", defect="param groups regrouped", saved_groups=[g["params"] for g in run["groups"]], loading_groups=[g["params"] for g in regrouped], **desc)
            gk = next(iter(sd0["param_groups"]))
            must_raise(lambda sd: sd["param_groups"].update({gk + "_renamed": sd["param_groups"].pop(gk)}), "a param group renamed")
    except OutOfDomain:
        counters["aborted_direction_overflows_dtype"] = 1
    except Violation:
        raise
    except Exception as e:  # noqa
        ill = c01.classify_abort(e, run, obs) is not None
        tol = type(e).__name__ == "ValueError" and "exceeded the allowed tolerance" in str(e) and cfg["precond"]["solver"]["type"] in ("newton", "ho")
        if ill or tol:
            counters["aborted_numerics"] = 1
        else:
            raise
    nontrivial = counters["resume_after_mask_change"] >= 1 or counters["steps_after_resume"] >= 10
    sig = c01.signature(run, {"absent_block_steps": int(any(not all(r) for r in run["presence"]))})
    return {"counters": counters, "sigs": [sig + [T]] if nontrivial else [], "sample": {"cfg": cfg, "shapes": run["shapes"], "groups": run["groups"], "T": T, "presence_kind": run["presence_kind"], "edits": run["edits"], "resumes": counters["resumes"]}}


def conclusive(agg, results, tier):
    need = {"chained_resumes": 100, "dcp_resumes": 100, "loaded_state_compared": 500, "resumes": 500, "steps_after_resume": 2000, "negative_loads": 1000, "resume_after_mask_change": 50, "key_uniqueness_checked": 500, "ddp_resumes": 50, "ddp_dtensor_leaves_saved": 100}
    low = {k: agg.get(k, 0) for k in need if agg.get(k, 0) < need[k]}
    return f"too few observations: {low}" if low else None
