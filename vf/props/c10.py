"""C10 - matrix inverse root is accurate for every solver, root and dtype.

Real code: matrix_functions.matrix_inverse_root (all four solver configs, diagonal and 1x1 fast paths) and the two
iterative routines' result tuples.  Oracle: exact spectral construction in float64 + the error bound of DESIGN 1.4."""
from __future__ import annotations

import math
from fractions import Fraction

from ..common import U, Violation, import_repo, rng_for, tgen

ID = "C10"
LEVEL = "exploration"
RULE = (
    "A = Q diag(lambda) Q^T with Haar Q and designed spectra (geometric/clustered/repeated/rank-deficient/one-big/uniform), sizes 1..128, "
    "condition numbers 1..1/u, scales 1e-6..1e6, rational roots, epsilon 1e-12..1e-1 of scale, float32/float64, four solver configs with "
    "iteration/tolerance settings, diagonal and 1x1 fast paths; one matrix_inverse_root call = one evaluation. Non-trivial: n>=2, kappa>=10 and the "
    "accuracy comparison was applicable (bound<=0.1). Distinct by (solver, dtype, n bucket, kappa decade, root)."
)
ASSUMPTIONS = [
    "CPU float32/float64 only",
    "where the perturbation bound exceeds 0.1 only the weak invariants (finite, symmetric) are enforced ('weak check only')",
    "CoupledNewton accepts integer roots only (non-integer -> ValueError is the documented behaviour and is checked as such)",
    "higher-order solver: effective ridge is max(rel_epsilon*||A||_inf, epsilon) as documented in its docstring",
]
TIMEOUT = {"quick": 900, "thorough": 3600}
ANCHORS = {"matrix_functions.py": ["matrix_inverse_root", "_matrix_inverse_root_diagonal", "_matrix_inverse_root_eigen", "_matrix_inverse_root_newton", "_matrix_inverse_root_higher_order"]}

C_M = {"eig": 16.0, "eig_stab": 16.0, "newton": 16.0, "ho": 256.0, "diag": 16.0, "scalar": 16.0}
KINDS = ["geometric", "clustered", "repeated", "rank_deficient", "one_big", "uniform", "zero"]
ROOTS = [Fraction(1), Fraction(2), Fraction(3), Fraction(4), Fraction(6), Fraction(8), Fraction(10), Fraction(400, 182), Fraction(3, 2), Fraction(8, 3), Fraction(2, 3)]
INT_ROOTS = [1, 2, 3, 4, 6, 8]
HO_ROOTS = [Fraction(1), Fraction(2), Fraction(3), Fraction(4), Fraction(6), Fraction(3, 2), Fraction(4, 3), Fraction(5, 2)]


def gen_cases(tier, seed):
    nb = 12 if tier == "quick" else 120
    per = 40 if tier == "quick" else 60
    cases = []
    for solver in ("eig", "eig_stab", "newton", "ho", "fast"):
        for dt in ("float32", "float64"):
            for i in range(nb if solver != "fast" else max(2, nb // 3)):
                cases.append({"id": f"{solver}_{dt}_{i}", "solver": solver, "dtype": dt, "n_inst": per, "seed": [seed, solver, dt, i], "tier": tier})
    # the higher-order solver at / beyond the dtype's resolution: that is where its residual guard has to fire (or hold)
    for i in range(12 if tier == "quick" else 48):
        cases.append({"id": f"ho_guard_{i}", "solver": "ho", "dtype": "float32", "n_inst": per, "seed": [seed, "ho_guard", i], "tier": tier, "guard_regime": True})
    cases.append({"id": "newton_noninteger", "solver": "newton_reject", "dtype": "float32", "n_inst": 0, "seed": [seed], "tier": tier})
    return cases


def _pick_n(rnd, tier):
    r = rnd.random()
    if r < 0.55:
        return rnd.randint(2, 16)
    if r < 0.6:
        return 1
    return rnd.choice([17, 24, 32, 48, 64] if tier == "quick" else [17, 24, 32, 48, 64, 96, 128])


def _reports_converged(mf, solver, A, r, cfg, eps):
    if not hasattr(mf, "_matrix_inverse_root_newton" if solver == "newton" else "_matrix_inverse_root_higher_order"):
        return False  # the routine that exposes the flag moved: only the flag-independent region is judged
    try:
        if solver == "newton":
            out = mf._matrix_inverse_root_newton(A, root=r.numerator, epsilon=eps, max_iterations=cfg.max_iterations, tolerance=cfg.tolerance)
        else:
            out = mf._matrix_inverse_root_higher_order(A, root=r, rel_epsilon=cfg.rel_epsilon, abs_epsilon=eps, max_iterations=cfg.max_iterations, tolerance=cfg.tolerance, order=cfg.order)
    except ArithmeticError:
        return False
    return out[2] == mf.NewtonConvergenceFlag.CONVERGED


def run_case(case):
    import_repo()
    import torch

    import matrix_functions as mf
    from matrix_functions_types import CoupledHigherOrderConfig, CoupledNewtonConfig, EigenConfig

    from .. import matref

    rnd = rng_for(*case["seed"])
    gen = tgen(*case["seed"])
    dtype = getattr(torch, case["dtype"])
    u = U(dtype)
    solver = case["solver"]
    counters = {"evals": 0, "accuracy_checked": 0, "weak_only": 0, "raised_arith": 0, "converged_flags": 0, "nonconverged_flags": 0, "max_ratio": 0.0, "fast_vs_general": 0}
    sigs = set()
    sample = None

    if solver == "newton_reject":
        A = torch.eye(3)
        for r in (Fraction(3, 2), Fraction(400, 182)):
            counters["evals"] += 1
            try:
                mf.matrix_inverse_root(A, r, root_inv_config=CoupledNewtonConfig(), epsilon=1e-3)
            except ValueError:
                continue
            raise Violation(f"coupled Newton accepted non-integer root {r}")
        return {"counters": counters, "sigs": ["newton_reject"]}

    for inst in range(case["n_inst"]):
        n = _pick_n(rnd, case["tier"])
        kind = rnd.choice(KINDS)
        max_dec = int(-math.log10(u))  # up to the dtype's resolution
        logk = rnd.choice(range(0, max_dec + 1)) if rnd.random() < 0.8 else rnd.choice([0, 1, 2, 3])
        scale = rnd.choice([1e-6, 1e-3, 1.0, 1.0, 1e3, 1e6])
        eps = scale * 10.0 ** rnd.choice([-12, -10, -8, -6, -5, -4, -3, -2, -1, -1, 0, 1, 3])  # epsilon may dominate A
        if solver in ("newton", "ho") and rnd.random() < 0.7:
            # iterative solvers are mostly fed moderately conditioned problems so that convergence is exercised
            logk = min(logk, rnd.choice([0, 1, 2, 3, 4]))
            eps = max(eps, scale * 10.0 ** (-logk - 2))
        if case.get("guard_regime"):
            # condition number of A + eps*I at or beyond 1/u: the coupled residual can look converged while X has lost all accuracy
            n = max(n, 4)
            kind = rnd.choice(["geometric", "geometric", "rank_deficient", "clustered"] if "rank_deficient" in KINDS else KINDS)
            logk = rnd.choice([7, 8, 9, 10, 12])
            eps = scale * 10.0 ** rnd.choice([-12, -11, -10, -9, -8])
        lam = matref.spectrum(kind, n, 10.0**logk, gen, scale)
        structure = rnd.choice(["dense", "dense", "dense", "diagonal_unflagged", "permuted_diagonal", "block_diagonal"])
        if structure == "dense" or n < 2:
            Q = matref.haar(n, gen)
        elif structure == "diagonal_unflagged":  # exactly diagonal input that is NOT flagged is_diagonal
            Q = torch.eye(n, dtype=torch.float64)
            lam = lam[torch.randperm(n, generator=gen)]
        elif structure == "permuted_diagonal":
            Q = torch.eye(n, dtype=torch.float64)[:, torch.randperm(n, generator=gen)]
        else:
            k_ = max(1, n // 2)
            Q = torch.block_diag(matref.haar(k_, gen), matref.haar(n - k_, gen))
        tol_solver = 0.0
        exp_f32 = True
        desc = {"solver": solver, "dtype": case["dtype"], "n": n, "kind": kind, "structure": structure, "log10_kappa": logk, "scale": scale, "epsilon": eps}
        if solver in ("eig", "eig_stab"):
            r = rnd.choice(ROOTS)
            cfg = EigenConfig(enhance_stability=(solver == "eig_stab"))
            cm = C_M[solver]
        elif solver == "newton":
            r = Fraction(rnd.choice(INT_ROOTS))
            tol = rnd.choice([1e-6, 1e-6, 1e-4, 1e-8, 1e-3])
            cfg = CoupledNewtonConfig(max_iterations=rnd.choice([100, 100, 1000, 20]), tolerance=tol)
            tol_solver = n * tol
            exp_f32 = False
            cm = C_M[solver]
            desc["tolerance"] = tol
            desc["max_iterations"] = cfg.max_iterations
        elif solver == "ho":
            r = rnd.choice(HO_ROOTS)
            tol = rnd.choice([1e-8, 1e-8, 1e-20, 1e-6, 1e-4])
            cfg = CoupledHigherOrderConfig(order=rnd.choice([2, 3, 3, 4]), rel_epsilon=rnd.choice([0.0, 0.0, 1e-6, 1e-3]), tolerance=tol, max_iterations=rnd.choice([100, 100, 30, 100, 1, 2, 3, 5]))  # tiny budgets: residuals land on both sides of the 0.1 guard
            tol_solver = n * tol
            exp_f32 = False
            cm = C_M[solver]
            desc.update(order=cfg.order, rel_epsilon=cfg.rel_epsilon, tolerance=tol)
        else:  # fast paths: diagonal-flagged diagonal input and 1x1
            r = rnd.choice(ROOTS)
            # a config may carry an exponent multiplier: whoever folds it into the exponent, the fast paths and the general
            # path must agree on it (the absolute value is then left to C01, which sees the caller's side of the fold)
            mult = rnd.choice([1.0, 1.0, 0.5, 1.82])
            cfg = EigenConfig(enhance_stability=rnd.random() < 0.5, exponent_multiplier=mult)
            desc["config_exponent_multiplier"] = mult
            cm = C_M["diag"]
            if rnd.random() < 0.3:
                n = 1
                lam = matref.spectrum(kind, 1, 1.0, gen, scale)
            Q = torch.eye(n, dtype=torch.float64)
        desc["root"] = str(r)
        if n == 1:  # every config takes the 1x1 fast path: no solver tolerance, exponent carried in float32
            tol_solver, exp_f32, cm = 0.0, True, C_M["scalar"]
        A64 = matref.sym_from(Q, lam) if solver != "fast" else torch.diag(lam)
        A = A64.to(dtype)
        eps_eff = eps
        if solver == "ho" and cfg.rel_epsilon > 0 and n >= 2:
            eps_eff = max(cfg.rel_epsilon * float(torch.linalg.matrix_norm(A.to(torch.float64), float("inf"))), eps)
        Xs = matref.exact_inverse_root(Q, lam, eps_eff, r)
        bound, cond = matref.root_error_bound(n, u, float(lam.min()), float(lam.max()), eps_eff, r, C_m=cm, tol_solver=tol_solver, exponent_f32=exp_f32)
        counters["evals"] += 1
        # ---- the call under observation
        from ..common import KernelObserver

        kobs = KernelObserver(measure_orth=True)
        try:
            with kobs:
                X = mf.matrix_inverse_root(A, r, root_inv_config=cfg, epsilon=eps, is_diagonal=(solver == "fast"))
        except ArithmeticError:
            if solver == "ho":
                counters["raised_arith"] += 1  # the documented guard: raise rather than return a bad result
                continue
            raise
        if X.shape != A.shape or X.dtype != A.dtype:
            raise Violation(f"result has shape/dtype {tuple(X.shape)}/{X.dtype}, input {tuple(A.shape)}/{A.dtype}", **desc)
        if not bool(torch.isfinite(X).all()):
            if cond * n * u > 0.05 and solver in ("newton", "ho"):  # rounding A to the dtype (n*u*||A||) can make A + eps*I indefinite
                counters["weak_only"] += 1  # beyond the dtype's resolution: outside the quantified domain
                counters["nonfinite_beyond_resolution"] = counters.get("nonfinite_beyond_resolution", 0) + 1
                continue
            raise Violation("non-finite entries in the inverse root of a PSD matrix with epsilon>0", **desc)
        err = matref.rel_fro(X, Xs)
        asym = float((X - X.T).to(torch.float64).norm() / X.to(torch.float64).norm().clamp_min(1e-300))
        if asym > 64 * n * u and solver in ("eig", "eig_stab", "fast"):
            raise Violation(f"asymmetric result: ||X-X^T||/||X|| = {asym:.3g}", **desc)
        # the third-party eigensolver's own measured loss of orthogonality (normally ~n*u; MKL's divide-and-conquer was seen
        # to return 2e-11 for tightly clustered float64 spectra) enters X = V f(L) V^T at first order, amplified by cond^(1/r)
        if kobs.max_orth_defect > 8 * n * u:
            bound += 4 * kobs.max_orth_defect * max(1.0, cond ** (1.0 / float(r)))
            counters["kernel_orth_defect_cases"] = counters.get("kernel_orth_defect_cases", 0) + 1
            counters["max_kernel_orth_defect"] = max(counters.get("max_kernel_orth_defect", 0.0), kobs.max_orth_defect)
        applicable = bound <= 0.1 and not (solver == "fast" and mult != 1.0)
        if solver in ("newton", "ho") and n >= 2:
            # narrowed claim (DESIGN C10): the accuracy bound with the solver's tolerance is judged only when the
            # solver reports convergence; a result returned with a non-convergence warning gets the weak checks
            # (and, for the higher-order method, the residual guard) only.
            conv = _reports_converged(mf, solver, A, r, cfg, eps)
            # ... except where rounding cannot be the reason: with the rounding floor cond*n*u two orders below the tolerance
            # and an ample iteration budget (>= 100) the accuracy clause is judged whatever the routine reports (on the
            # unchanged tree every such call reports CONVERGED: counters region_judged / region_nonconverged)
            in_region = cond * n * u * 100 < cfg.tolerance and cfg.max_iterations >= 100
            if in_region:
                counters["region_judged"] = counters.get("region_judged", 0) + 1
                if not conv:
                    counters["region_nonconverged"] = counters.get("region_nonconverged", 0) + 1
            applicable = applicable and (conv or in_region)
        if applicable:
            ratio = err / bound
            counters["accuracy_checked"] += 1
            counters["max_ratio"] = max(counters["max_ratio"], ratio)
            if ratio > 1.0:
                raise Violation(f"relative error {err:.3g} exceeds bound {bound:.3g} (cond {cond:.3g})", error=err, bound=bound, cond=cond, **desc)
            if n >= 2 and cond >= 10:
                counters["nontrivial_" + solver + "_" + case["dtype"]] = counters.get("nontrivial_" + solver + "_" + case["dtype"], 0) + 1
                sigs.add((solver, case["dtype"], min(7, n.bit_length()), int(math.log10(cond)), str(r)))
        else:
            counters["weak_only"] += 1
        # ---- fast path equals general path
        if solver == "fast" and n >= 2:
            Xg = mf.matrix_inverse_root(A, r, root_inv_config=cfg, epsilon=eps, is_diagonal=False)
            counters["fast_vs_general"] += 1
            if bound <= 0.05:
                d = matref.rel_fro(X, Xg.to(torch.float64))
                if d > 2 * bound:
                    raise Violation(f"diagonal fast path differs from the general path by {d:.3g} (> 2*bound {bound:.3g})", **desc)
        if solver == "fast" and n == 1:
            A2 = torch.diag(torch.cat([A64.flatten(), A64.flatten()])).to(dtype)
            Xg = mf.matrix_inverse_root(A2, r, root_inv_config=cfg, epsilon=eps, is_diagonal=False)
            counters["fast_vs_general"] += 1
            if bound <= 0.05 and abs(float(X.flatten()[0]) - float(Xg[0, 0])) > 2 * bound * abs(float(Xg[0, 0])):
                raise Violation("1x1 fast path differs from the general path on the same eigenvalue", fast=float(X.flatten()[0]), general=float(Xg[0, 0]), **desc)
        # ---- iterative solvers: flag semantics and guard, read from the routines' own result tuples
        if solver == "newton" and n >= 2 and not hasattr(mf, "_matrix_inverse_root_newton"):
            counters["flag_routine_missing"] = counters.get("flag_routine_missing", 0) + 1
        elif solver == "newton" and n >= 2:
            Xn, M, flag, it, e = mf._matrix_inverse_root_newton(A, root=r.numerator, epsilon=eps, max_iterations=cfg.max_iterations, tolerance=cfg.tolerance)
            ident = torch.eye(n, dtype=dtype)
            e_indep = float((M - ident).abs().max())
            if flag == mf.NewtonConvergenceFlag.CONVERGED:
                counters["converged_flags"] += 1
                if e_indep > cfg.tolerance * (1 + 1e-6):
                    raise Violation(f"Newton reports CONVERGED but ||M-I||_max = {e_indep:.3g} > tolerance {cfg.tolerance}", **desc)
            else:
                counters["nonconverged_flags"] += 1
                if e_indep <= cfg.tolerance and it < cfg.max_iterations:
                    raise Violation("Newton reports non-convergence although the tolerance is met", **desc)
            if it > cfg.max_iterations:
                raise Violation(f"Newton ran {it} > max_iterations {cfg.max_iterations}", **desc)
        if solver == "ho" and n >= 2 and not hasattr(mf, "_matrix_inverse_root_higher_order"):
            counters["flag_routine_missing"] = counters.get("flag_routine_missing", 0) + 1
        elif solver == "ho" and n >= 2:
            kw = dict(rel_epsilon=cfg.rel_epsilon, abs_epsilon=eps, max_iterations=cfg.max_iterations, tolerance=cfg.tolerance, order=cfg.order)
            try:
                Xh, M, flag, it, true_err = mf._matrix_inverse_root_higher_order(A, root=r, **kw)
            except ArithmeticError:
                raise Violation("higher-order routine raised on a call that had just returned through matrix_inverse_root", **desc)
            ident = torch.eye(n, dtype=dtype)
            e_indep = float((M - ident).abs().max())
            if flag == mf.NewtonConvergenceFlag.CONVERGED:
                counters["converged_flags"] += 1
                if e_indep > cfg.tolerance * (1 + 1e-6):
                    raise Violation(f"higher-order reports CONVERGED but ||M-I||_max = {e_indep:.3g} > tolerance {cfg.tolerance}", **desc)
            else:
                counters["nonconverged_flags"] += 1
            if float(true_err) > 0.1:
                raise Violation(f"higher-order returned a result whose own residual {float(true_err):.3g} exceeds the 0.1 guard", **desc)
            if r.denominator == 1:
                Ar = A.to(torch.float64) + eps_eff * torch.eye(n, dtype=torch.float64)
                resid = float((Ar @ torch.linalg.matrix_power(Xh.to(torch.float64), r.numerator) - torch.eye(n, dtype=torch.float64)).abs().max())
                if resid > 0.1 * (1 + 0.05) + 64 * n * u * cond:
                    raise Violation(f"higher-order returned X with residual ||A_ridge X^p - I||_max = {resid:.3g} > guard 0.1", **desc)
                # Beyond 1/u the bound above is vacuous although the guard is not: whatever working-precision evaluation of the
                # residual the solver uses, it lies among (or near) the probes below.  Probes only add admissible behaviours: it is a
                # violation only if the exact residual (float64 evaluation of the returned X) AND every working-dtype evaluation order
                # exceed the guard by half its value - then no residual-based guard can have let this X through.
                p_ = r.numerator
                eps_w = float(max(cfg.rel_epsilon * torch.linalg.matrix_norm(A, float("inf")), eps))
                Aw = torch.add(A, ident, alpha=eps_w)
                chain_l, chain_r = Aw, Xh
                for _ in range(p_):
                    chain_l = chain_l @ Xh
                for _ in range(p_ - 1):
                    chain_r = Xh @ chain_r
                probes = {
                    "float64": resid,
                    "A@power(X,p)": float((Aw @ torch.linalg.matrix_power(Xh, p_) - ident).abs().max()),
                    "((A@X)@X)...": float((chain_l - ident).abs().max()),
                    "power(X,p)@A": float((torch.linalg.matrix_power(Xh, p_) @ Aw - ident).abs().max()),
                    "X@(X@...)@A": float((chain_r @ Aw - ident).abs().max()),
                }
                counters["guard_probe_sets"] = counters.get("guard_probe_sets", 0) + 1
                if min(probes.values()) > 0.1:
                    counters["guard_probes_all_above_guard"] = counters.get("guard_probes_all_above_guard", 0) + 1
                if all(v == v for v in probes.values()) and min(probes.values()) > 0.15:
                    raise Violation(f"higher-order returned X although every evaluation of its residual ||A_ridge X^p - I||_max exceeds the 0.1 guard (smallest {min(probes.values()):.3g})", probes=probes, **desc)
        if sample is None and n >= 2 and applicable:
            sample = dict(desc, cond=cond, rel_error=err, bound=bound)
    return {"counters": counters, "sigs": sorted(sigs), "sample": sample}


def conclusive(agg, results, tier):
    if agg.get("accuracy_checked", 0) < 500:
        return f"only {agg.get('accuracy_checked', 0)} accuracy comparisons were applicable"
    if agg.get("converged_flags", 0) < 20:
        return f"only {agg.get('converged_flags', 0)} CONVERGED flags observed"
    if agg.get("fast_vs_general", 0) < 20:
        return "fast paths hardly compared"
    return None
