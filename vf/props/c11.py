"""C11 - eigendecomposition-based inverse roots are SPD, finite and equivariant on degenerate input.

Real code: matrix_functions.matrix_inverse_root with EigenConfig (both variants), incl. the double-precision retry path
(reached by making torch.linalg.eigh fail once in the working precision).
Oracle: direct algebraic invariants evaluated in float64 on the returned tensor."""
from __future__ import annotations

import math
from fractions import Fraction

from ..common import U, Violation, import_repo, rng_for, tgen

ID = "C11"
LEVEL = "exploration"
RULE = (
    "finite symmetric inputs of size 1..64 (zero matrix, rank-k PSD, PSD plus symmetric noise with eigenvalues in [-1e-3*scale,0), exact ties, generic), "
    "float32/float64, scales 1e-6..1e6, epsilon from the dtype resolution of the scale up to 1e-1*scale, rational roots, both EigenConfig variants, "
    "retry path by injected eigh failure; one call = one evaluation (equivariance adds a second call). Non-trivial: rank-deficient or indefinite input "
    "of size>=2. Distinct by (kind, dtype, n bucket, root, stability flag, epsilon decade). Plus rejection of non-square / non-2D shapes."
)
ASSUMPTIONS = [
    "is_diagonal=False (the diagonal fast path on PSD input is covered by C10)",
    "strict positivity of the smallest eigenvalue is demanded only where it exceeds the rounding level C*n*u*||X||; below that the weak form lambda_min >= -C*n*u*||X|| is enforced",
    "equivariance is compared only where the C10 perturbation bound of the shifted problem is <= 0.1",
]
TIMEOUT = {"quick": 900, "thorough": 3600}
ANCHORS = {"matrix_functions.py": ["matrix_inverse_root", "_matrix_inverse_root_eigen", "matrix_eigenvalue_decomposition"]}

KINDS = ["zero", "rank_k", "indefinite", "ties", "generic", "tiny_negative"]
ROOTS = [Fraction(1), Fraction(2), Fraction(3), Fraction(4), Fraction(6), Fraction(8), Fraction(400, 182), Fraction(3, 2), Fraction(10), Fraction(1, 2), Fraction(3, 4), Fraction(2, 3), Fraction(100, 182)]
C = 64.0


def gen_cases(tier, seed):
    nb = 10 if tier == "quick" else 100
    per = 40 if tier == "quick" else 60
    cases = []
    for dt in ("float32", "float64"):
        for stab in (False, True):
            for i in range(nb):
                cases.append({"id": f"{dt}_{'stab' if stab else 'plain'}_{i}", "dtype": dt, "stab": stab, "n_inst": per, "seed": [seed, dt, stab, i], "tier": tier, "kind": "algebra"})
    cases.append({"id": "reject_shapes", "kind": "reject", "dtype": "float32", "seed": [seed]})
    return cases


def _make(kind, n, scale, gen, torch, matref):
    D = torch.float64
    Q = matref.haar(n, gen)
    st = int(torch.randint(0, 6, (1,), generator=gen))
    if n >= 2 and st == 0:  # exactly diagonal (unflagged), permuted diagonal, block diagonal inputs
        Q = torch.eye(n, dtype=D)
    elif n >= 2 and st == 1:
        Q = torch.eye(n, dtype=D)[:, torch.randperm(n, generator=gen)]
    elif n >= 3 and st == 2:
        k_ = n // 2
        Q = torch.block_diag(matref.haar(k_, gen), matref.haar(n - k_, gen))
    if kind == "zero":
        lam = torch.zeros(n, dtype=D)
    elif kind == "rank_k":
        k = max(1, int(torch.randint(1, max(2, n), (1,), generator=gen)))
        lam = torch.cat([torch.rand(min(k, n), generator=gen, dtype=D) + 0.05, torch.zeros(max(0, n - k), dtype=D)])[:n]
    elif kind == "indefinite":
        lam = torch.rand(n, generator=gen, dtype=D)
        m = max(1, n // 3)
        lam[:m] = -1e-3 * torch.rand(m, generator=gen, dtype=D)
    elif kind == "tiny_negative":
        lam = torch.rand(n, generator=gen, dtype=D)
        lam[0] = -1e-3 * 10.0 ** (-float(torch.randint(0, 6, (1,), generator=gen)))
    elif kind == "ties":
        lam = (torch.randint(0, 3, (n,), generator=gen).to(D)) * 0.5
    else:
        lam = torch.rand(n, generator=gen, dtype=D) + 1e-3
    lam = lam * scale
    return Q, lam, matref.sym_from(Q, lam)


def run_case(case):
    import_repo()
    import torch

    import matrix_functions as mf
    from matrix_functions_types import EigenConfig

    from .. import matref

    counters = {"evals": 0, "spd_strict": 0, "spd_weak": 0, "equivariance_checked": 0, "retry_path": 0, "max_ratio_sym": 0.0, "max_ratio_comm": 0.0, "max_ratio_equiv": 0.0, "max_ratio_top": 0.0}
    sigs = set()
    sample = None
    if case["kind"] == "reject":
        cfg = EigenConfig()
        shapes = [(2, 3), (3, 2), (4,), (2,), (2, 2, 1), (2, 1, 2), (1, 4), (4, 1), (1, 2, 2), (2, 2, 2), (1, 1, 2), (3, 3, 3)]
        for shp in shapes:
            for dt in (torch.float32, torch.float64):
                for cfg in (EigenConfig(), EigenConfig(enhance_stability=True)):
                    for diag_flag in (False, True):  # the shape check must not depend on the fast-path flag
                        counters["evals"] += 1
                        try:
                            out = mf.matrix_inverse_root(torch.ones(shp, dtype=dt), Fraction(2), root_inv_config=cfg, epsilon=1e-3, is_diagonal=diag_flag)
                        except Exception:  # rejected with an error
                            continue
                        raise Violation(f"input of shape {shp} with more than one element that is not a square 2-D matrix was accepted (is_diagonal={diag_flag})", returned_shape=list(out.shape))
            sigs.add(("reject", shp))
        return {"counters": counters, "sigs": sorted(sigs)}

    rnd = rng_for(*case["seed"])
    gen = tgen(*case["seed"])
    dtype = getattr(torch, case["dtype"])
    u = U(dtype)
    D = torch.float64
    cfg = EigenConfig(enhance_stability=case["stab"])
    for inst in range(case["n_inst"]):
        r0 = rnd.random()
        n = 1 if r0 < 0.06 else (rnd.randint(2, 12) if r0 < 0.7 else rnd.choice([16, 24, 32, 48, 64]))
        kind = rnd.choice(KINDS)
        scale = rnd.choice([1e-6, 1e-3, 1.0, 1.0, 1e3, 1e6])
        # epsilon not below the dtype resolution of the scale
        lo_dec = math.ceil(math.log10(u)) + 1
        eps = scale * 10.0 ** rnd.choice(range(lo_dec, 0))
        r = rnd.choice(ROOTS)
        Q, lam, A64 = _make(kind, n, scale, gen, torch, matref)
        A = A64.to(dtype)
        A = (A + A.T) / 2 if n > 1 else A
        Ad = A.to(D)
        desc = {"kind": kind, "n": n, "dtype": case["dtype"], "scale": scale, "epsilon": eps, "root": str(r), "enhance_stability": case["stab"]}
        inject = rnd.random() < 0.08 and dtype != torch.float64 and n >= 2
        counters["evals"] += 1
        if inject:
            orig = torch.linalg.eigh
            state = {"failed": 0}

            def flaky(M, *a, **k):
                if M.dtype != torch.float64 and not state["failed"]:
                    state["failed"] = 1
                    raise RuntimeError("injected: eigh failed in working precision")
                return orig(M, *a, **k)

            torch.linalg.eigh = flaky
            try:
                X = mf.matrix_inverse_root(A, r, root_inv_config=cfg, epsilon=eps)
            finally:
                torch.linalg.eigh = orig
            if not state["failed"]:
                from ..common import Inconclusive

                raise Inconclusive("injected eigh failure was never triggered")
            counters["retry_path"] += 1
            desc["retry_double_precision_path"] = True
        else:
            X = mf.matrix_inverse_root(A, r, root_inv_config=cfg, epsilon=eps)
        if tuple(X.shape) != tuple(A.shape):
            raise Violation(f"result shape {tuple(X.shape)} != input shape {tuple(A.shape)}", **desc)
        if not bool(torch.isfinite(X).all()):
            raise Violation("non-finite inverse root on finite symmetric input", input_head=[float(v) for v in Ad.flatten()[:4]], **desc)
        Xd = X.to(D)
        nX = float(Xd.norm())
        # (b) symmetry
        if n > 1:
            rs = float((Xd - Xd.T).norm()) / (C * n * u * nX)
            counters["max_ratio_sym"] = max(counters["max_ratio_sym"], rs)
            if rs > 1:
                raise Violation(f"asymmetric: ||X-X^T||/||X|| = {rs * C * n * u:.3g}", **desc)
        ev = torch.linalg.eigvalsh((Xd + Xd.T) / 2) if n > 1 else Xd.flatten()
        # reference spectrum of the shifted problem
        evA = torch.linalg.eigvalsh(Ad) if n > 1 else Ad.flatten()
        shift = -min(float(evA.min()), 0.0)
        top = eps ** (-1.0 / float(r))
        hi = float(evA.max()) + shift + eps
        bottom = hi ** (-1.0 / float(r))
        # (c) spectrum bound: eigenvalues at most eps^(-1/r)
        delta = C * n * u + 1.05 * abs(math.log(eps)) * matref.exponent_rounding(r)
        if case["stab"]:
            # the stability variant shifts the spectrum of A+eps*I: the smallest eigenvalue is eps*(1 +- u*|shift|/eps)
            delta += 4 * u * (float(evA.abs().max()) + eps) / eps / float(r)
        rt = (float(ev.max()) / top - 1.0) / delta
        counters["max_ratio_top"] = max(counters["max_ratio_top"], rt)
        if rt > 1:
            raise Violation(f"largest eigenvalue {float(ev.max()):.6g} exceeds epsilon^(-1/r) = {top:.6g} by more than rounding", **desc)
        # (c') positive definite
        if bottom > 4 * C * n * u * float(ev.abs().max()):
            counters["spd_strict"] += 1
            if not float(ev.min()) > 0:
                raise Violation(f"not positive definite: smallest eigenvalue {float(ev.min()):.3g}", **desc)
        else:
            counters["spd_weak"] += 1
            if float(ev.min()) < -C * n * u * float(ev.abs().max()):
                raise Violation(f"smallest eigenvalue {float(ev.min()):.3g} is negative beyond rounding", **desc)
        # third-party kernel probe: loss of orthogonality of torch.linalg.eigh on this very input (normally ~n*u; MKL's
        # divide-and-conquer was seen to return 2e-11 for tightly clustered float64 spectra) - it enters X = V f(L) V^T at first
        # order and is added to the tolerances of (d) and (e) as the kernel's own measured error
        kdef = 0.0
        if n > 1:
            for M_ in (A, A + eps * torch.eye(n, dtype=dtype)):
                try:
                    V_ = torch.linalg.eigh(M_)[1].to(D)
                    kdef = max(kdef, float((V_.T @ V_ - torch.eye(n, dtype=D)).abs().max()))
                except Exception:  # noqa
                    pass
            if kdef > 8 * n * u:
                counters["kernel_orth_defect_cases"] = counters.get("kernel_orth_defect_cases", 0) + 1
            else:
                kdef = 0.0
        # (d) commutes with the input
        if n > 1 and float(Ad.norm()) > 0:
            rc = float((Ad @ Xd - Xd @ Ad).norm()) / ((C * n * u + 4 * kdef) * float(Ad.norm()) * nX)
            counters["max_ratio_comm"] = max(counters["max_ratio_comm"], rc)
            if rc > 1:
                raise Violation(f"does not commute with the input: ||AX-XA||/(||A|| ||X||) = {rc * C * n * u:.3g}", **desc)
        # (e) orthogonal equivariance
        if n > 1:
            bound, cond = matref.root_error_bound(n, u, 0.0, hi - eps, eps, r, C_m=16.0)
            if bound <= 0.05:
                P = matref.haar(n, gen)
                B = P @ Ad @ P.T
                B = ((B + B.T) / 2).to(dtype)
                XB = mf.matrix_inverse_root(B, r, root_inv_config=cfg, epsilon=eps).to(D)
                want = P @ Xd @ P.T
                bound = bound + 4 * kdef * max(1.0, cond ** (1.0 / float(r)))
                re = float((XB - want).norm() / want.norm()) / (2 * bound)
                counters["equivariance_checked"] += 1
                counters["max_ratio_equiv"] = max(counters["max_ratio_equiv"], re)
                if re > 1:
                    raise Violation(f"not orthogonally equivariant: ||f(QAQ^T)-Q f(A) Q^T||/||.|| = {re * 2 * bound:.3g} > {2 * bound:.3g}", cond=cond, **desc)
        if n >= 2 and kind in ("zero", "rank_k", "indefinite", "tiny_negative", "ties"):
            sigs.add((kind, case["dtype"], min(7, n.bit_length()), str(r), case["stab"], int(math.log10(eps / scale))))
        if sample is None and kind == "indefinite" and n >= 2:
            sample = dict(desc, lambda_min_input=float(evA.min()), lambda_max_result=float(ev.max()), eps_pow=top)
    return {"counters": counters, "sigs": sorted(sigs), "sample": sample}


def conclusive(agg, results, tier):
    if agg.get("spd_strict", 0) < 300 or agg.get("equivariance_checked", 0) < 100 or agg.get("retry_path", 0) < 3:
        return f"too few strict-SPD / equivariance / retry observations: {agg}"
    return None
