"""C12 - eigenvector routines return orthonormal, ordered, diagonalising bases.

Real code: matrix_functions.matrix_eigenvectors (eigh and QR configs) and _compute_orthogonal_iterations.
Oracle: orthonormality / diagonalisation residuals, ordering, gap-aware cluster-projector match with a float64
orthogonal iteration (existential over the iteration count), fixed point on exact eigenbases."""
from __future__ import annotations

import math

from ..common import Inconclusive, U, Violation, import_repo, rng_for, tgen

ID = "C12"
LEVEL = "exploration"
RULE = (
    "symmetric PSD matrices of size 1..64 with distinct / clustered / repeated / rank-deficient spectra, float32/float64; eigh method, diagonal flag, 1x1; "
    "QR method with zero, exact (sorted / unsorted), Haar-random and slightly rotated estimates, max_iterations 1..50, tolerance in {0,1e-8,1e-5,1e-2,1}. "
    "One matrix_eigenvectors call = one evaluation. Non-trivial: n>=2 and (eigh checks applied, or a QR case with >=1 comparable cluster). "
    "Distinct by (method, estimate kind, spectrum kind, dtype, n bucket, iteration bucket, tolerance)."
)
ASSUMPTIONS = [
    "QR outputs are compared by spectral-cluster projectors: column signs, bases inside a repeated eigenvalue and the completion of a rank-deficient A@Q are not judged",
    "the QR output must match the k-fold orthogonal iteration for SOME k in 1..max_iterations (early-exit decisions at the tolerance boundary are not judged)",
]
TIMEOUT = {"quick": 900, "thorough": 3600}
ANCHORS = {"matrix_functions.py": ["matrix_eigenvectors", "_compute_orthogonal_iterations", "matrix_eigenvalue_decomposition"]}

C = 64.0
SPECTRA = ["distinct", "clustered", "repeated", "rank_deficient", "geometric"]
STRUCTURES = ["dense", "dense", "dense", "dense", "diagonal_unflagged", "permuted_diagonal", "block_diagonal", "identity_multiple", "zero", "zero_rows"]
ESTIMATES = ["zero", "exact_sorted", "exact_unsorted", "haar", "rotated", "identity", "permutation", "block_orthogonal"]


def gen_cases(tier, seed):
    nb = 8 if tier == "quick" else 80
    per = 30 if tier == "quick" else 50
    cases = []
    for method in ("eigh", "qr"):
        for dt in ("float32", "float64"):
            for i in range(nb if method == "qr" else max(2, nb // 2)):
                cases.append({"id": f"{method}_{dt}_{i}", "method": method, "dtype": dt, "n_inst": per, "seed": [seed, method, dt, i], "tier": tier})
    return cases


def _spectrum(kind, n, gen, torch):
    D = torch.float64
    if kind == "distinct":
        lam = torch.linspace(0.1, 1.0, n, dtype=D) * (1 + 0.02 * torch.rand(n, generator=gen, dtype=D))
    elif kind == "clustered":
        lam = torch.cat([0.2 + 1e-4 * torch.rand(n // 2, generator=gen, dtype=D), 1.0 + 1e-4 * torch.rand(n - n // 2, generator=gen, dtype=D)])
    elif kind == "repeated":
        lam = (torch.randint(1, 4, (n,), generator=gen).to(D)) * 0.3
    elif kind == "rank_deficient":
        k = max(1, n // 2)
        lam = torch.cat([torch.linspace(0.2, 1.0, k, dtype=D), torch.zeros(n - k, dtype=D)])
    else:
        lam = torch.logspace(0, -3, n, dtype=D)
    return lam[torch.randperm(n, generator=gen)]


def _check_eigh_like(torch, Q, Ad, n, u, desc, counters, what):
    D = torch.float64
    if not bool(torch.isfinite(Q).all()):
        raise Violation(f"{what}: basis has NaN/Inf entries for a finite symmetric input", **desc)
    Qd = Q.to(D)
    nA = float(torch.linalg.matrix_norm(Ad, 2)) if n > 1 else float(Ad.abs().max())
    ro = float((Qd.T @ Qd - torch.eye(n, dtype=D)).norm()) / (C * n * u)
    counters["max_ratio_orth"] = max(counters["max_ratio_orth"], ro)
    if not ro <= 1:
        raise Violation(f"{what}: basis not orthonormal, ||Q^T Q - I|| = {ro * C * n * u:.3g}", **desc)
    T = Qd.T @ Ad @ Qd
    off = T - torch.diag(torch.diagonal(T))
    if nA > 0:
        rd = float(off.norm()) / (C * n * u * nA)
        counters["max_ratio_diag"] = max(counters["max_ratio_diag"], rd)
        if not rd <= 1:
            raise Violation(f"{what}: Q^T A Q is not diagonal, off-diagonal norm {float(off.norm()):.3g} (||A|| = {nA:.3g})", **desc)
    d = torch.diagonal(T)
    if n > 1 and float((d[:-1] - d[1:]).max()) > C * n * u * max(nA, 1e-300):
        raise Violation(f"{what}: eigenvalues not in ascending order", eigenvalues=[float(x) for x in d[:8]], **desc)


def run_case(case):
    import_repo()
    import torch

    import matrix_functions as mf
    from matrix_functions_types import EighEigenvectorConfig, QRConfig

    from .. import matref

    D = torch.float64
    rnd = rng_for(*case["seed"])
    gen = tgen(*case["seed"])
    dtype = getattr(torch, case["dtype"])
    u = U(dtype)
    counters = {"evals": 0, "eigh_checked": 0, "qr_matched": 0, "qr_nonvacuous_clusters": 0, "qr_vacuous": 0, "qr_backward_checked": 0, "fixed_point_checked": 0, "zero_estimate_fallback": 0, "diag_flag": 0, "scalar": 0, "max_ratio_orth": 0.0, "max_ratio_diag": 0.0, "max_ratio_cluster": 0.0}
    sigs = set()
    sample = None
    for inst in range(case["n_inst"]):
        r0 = rnd.random()
        n = 1 if r0 < 0.04 else (rnd.randint(2, 12) if r0 < 0.75 else rnd.choice([16, 24, 32, 48, 64]))
        kind = rnd.choice(SPECTRA)
        forced_fp = case["method"] == "qr" and inst % 6 == 5 and n >= 2  # dedicated fixed-point instances
        if forced_fp:
            kind = rnd.choice(["distinct", "geometric"])
        scale = rnd.choice([1e-4, 1.0, 1.0, 1e3])
        lam = _spectrum(kind, n, gen, torch) * scale
        structure = "dense" if forced_fp else rnd.choice(STRUCTURES)
        if structure == "dense":
            Qt = matref.haar(n, gen)
        elif structure == "diagonal_unflagged":  # exactly diagonal, unsorted diagonal, is_diagonal NOT set
            Qt = torch.eye(n, dtype=D)
        elif structure == "permuted_diagonal":
            Qt = torch.eye(n, dtype=D)[:, torch.randperm(n, generator=gen)]
        elif structure == "block_diagonal":
            k = max(1, n // 2)
            Qt = torch.block_diag(matref.haar(k, gen), matref.haar(n - k, gen)) if n - k > 0 else matref.haar(n, gen)
        elif structure == "zero_rows":
            # Gram matrix of a gradient with all-zero rows: some coordinates are exactly zero rows/columns of A
            k = max(1, n // 2)
            Qt = torch.block_diag(matref.haar(k, gen), torch.eye(n - k, dtype=D)) if n - k > 0 else matref.haar(n, gen)
            lam = torch.cat([torch.linspace(0.2, 1.0, k, dtype=D) * scale / scale, torch.zeros(n - k, dtype=D)])
        elif structure == "identity_multiple":
            Qt = matref.haar(n, gen)
            lam = torch.full((n,), float(lam.max()), dtype=D)
        else:
            Qt = matref.haar(n, gen)
            lam = torch.zeros(n, dtype=D)
        A64 = matref.sym_from(Qt, lam)
        A = A64.to(dtype)
        if n > 1:
            A = (A + A.T) / 2
        Ad = A.to(D)
        desc = {"method": case["method"], "n": n, "dtype": case["dtype"], "spectrum": kind, "scale": scale, "structure": structure}
        counters["evals"] += 1
        if n == 1:
            cfg = EighEigenvectorConfig() if case["method"] == "eigh" else QRConfig()
            out = mf.matrix_eigenvectors(A, eigenvectors_estimate=torch.zeros_like(A), eigenvector_computation_config=cfg)
            counters["scalar"] += 1
            if tuple(out.shape) != tuple(A.shape) or float(out.flatten()[0]) != 1.0:
                raise Violation("1x1 input does not yield one", got=[float(x) for x in out.flatten()], **desc)
            continue
        if rnd.random() < 0.08:
            # diagonal-flagged input -> identity
            Adiag = torch.diag(lam).to(dtype)
            cfg = EighEigenvectorConfig() if case["method"] == "eigh" else QRConfig(max_iterations=3)
            out = mf.matrix_eigenvectors(Adiag, eigenvectors_estimate=matref.haar(n, gen).to(dtype), eigenvector_computation_config=cfg, is_diagonal=True)
            counters["diag_flag"] += 1
            if not torch.equal(out.to(D), torch.eye(n, dtype=D)):
                raise Violation("diagonal-flagged input does not yield the identity", **desc)
            continue
        if case["method"] == "eigh":
            out = mf.matrix_eigenvectors(A, eigenvector_computation_config=EighEigenvectorConfig())
            _check_eigh_like(torch, out, Ad, n, u, desc, counters, "eigh method")
            counters["eigh_checked"] += 1
            sigs.add(("eigh", kind, structure, case["dtype"], min(7, n.bit_length())))
            if sample is None:
                sample = dict(desc, eigenvalues_head=[float(x) for x in sorted(lam.tolist())[:4]])
            continue
        # ---- QR method
        est_kind = rnd.choice(ESTIMATES)
        K = rnd.choice([1, 1, 1, 2, 3, 5, 8, 20, 50])
        if forced_fp:
            est_kind, K = rnd.choice(["exact_sorted", "exact_unsorted"]), rnd.choice([1, 1, 2])
        tol = rnd.choice([0.0, 1e-8, 1e-5, 1e-2, 1.0])
        desc.update(estimate=est_kind, max_iterations=K, tolerance=tol)
        evA, VA = torch.linalg.eigh(Ad)  # exact eigenbasis of the input actually passed
        if est_kind == "zero":
            Q0 = torch.zeros(n, n, dtype=D)
        elif est_kind == "exact_sorted":
            Q0 = VA
        elif est_kind == "exact_unsorted":
            Q0 = VA[:, torch.randperm(n, generator=gen)]
        elif est_kind == "haar":
            Q0 = matref.haar(n, gen)
        elif est_kind == "identity":  # orthonormal estimates with exact zero entries (sparse / one-hot early gradients)
            Q0 = torch.eye(n, dtype=D)
        elif est_kind == "permutation":
            Q0 = torch.eye(n, dtype=D)[:, torch.randperm(n, generator=gen)]
        elif est_kind == "block_orthogonal":
            k = max(1, n // 2)
            Q0 = torch.block_diag(matref.haar(k, gen), matref.haar(n - k, gen)) if n - k > 0 else matref.haar(n, gen)
        else:
            G = torch.randn(n, n, generator=gen, dtype=D) * 1e-2
            Q0 = torch.linalg.qr(VA @ (torch.eye(n, dtype=D) + (G - G.T))).Q
        Q0t = Q0.to(dtype)
        out = mf.matrix_eigenvectors(A, eigenvectors_estimate=Q0t, eigenvector_computation_config=QRConfig(max_iterations=K, tolerance=tol))
        if tuple(out.shape) != (n, n):
            raise Violation(f"QR method returned shape {tuple(out.shape)}", **desc)
        if not bool(torch.isfinite(out).all()):
            raise Violation("QR method returned a basis with NaN/Inf entries for a finite symmetric PSD input", **desc)
        if est_kind == "zero":
            _check_eigh_like(torch, out, Ad, n, u, desc, counters, "QR method with zero estimate (eigendecomposition fallback)")
            counters["zero_estimate_fallback"] += 1
            sigs.add(("qr_zero", kind, case["dtype"], min(7, n.bit_length())))
            continue
        outd = out.to(D)
        ro = float((outd.T @ outd - torch.eye(n, dtype=D)).norm()) / (C * n * u)
        counters["max_ratio_orth"] = max(counters["max_ratio_orth"], ro)
        if not ro <= 1:
            raise Violation(f"QR method: basis not orthonormal, ||Q^T Q - I|| = {ro * C * n * u:.3g}", **desc)
        nA = float(torch.linalg.matrix_norm(Ad, 2))
        rq = torch.einsum("ij,ik,kj->j", outd, Ad, outd)
        if float((rq[:-1] - rq[1:]).max()) > C * n * u * nA:
            raise Violation("QR method: columns not ordered by ascending Rayleigh quotient", rayleigh=[float(x) for x in rq[:8]], **desc)
        if K == 1:
            # a single step is backward stable whatever the conditioning (incl. rank-deficient A@Q, unstable fixed points)
            okb, first = matref.qr_backward_check(outd, Ad, Q0t.to(D), u)
            counters["qr_backward_checked"] += 1
            counters["qr_matched"] += 1
            matched, k, nv, worst = True, 1, 0, 0.0
            if not okb:
                raise Violation("QR method (1 iteration): out^T (A Q0) is not a row-permuted upper-triangular matrix: not a QR factor of A@estimate", first_nonzero_per_row=first, **desc)
        else:
            matched, k, nv, worst = matref.match_orth_iter(outd, Ad, Q0t.to(D), K, u, gen=gen)
            if not matched:
                raise Violation(f"QR method: output is not the orthogonal-iteration update of the estimate for any k in 1..{K}", **desc)
            counters["qr_matched"] += 1
            counters["qr_nonvacuous_clusters"] += nv
            counters["max_ratio_cluster"] = max(counters["max_ratio_cluster"], worst)
            # the documented stopping rule: relative change of the estimate <= tolerance (or max_iterations reached)
            verdict, J, M = matref.stop_rule_check(outd, Ad, Q0t.to(D), K, tol, u, gen, work_dtype=out.dtype)
            counters["stop_rule_" + verdict] = counters.get("stop_rule_" + verdict, 0) + 1
            if verdict == "violated":
                raise Violation(f"QR method: the output matches the orthogonal iteration after {M} step(s), but the documented stopping rule (relative change <= tolerance {tol}, at most {K} iterations) stops after {J}", **desc)
        if nv == 0 and K != 1:
            counters["qr_vacuous"] += 1
        else:
            sigs.add(("qr", est_kind, kind, case["dtype"], min(7, n.bit_length()), min(K, 8), tol))
        # fixed point: exact eigenbasis with distinct, well separated eigenvalues stays put (up to signs / a permutation),
        # as long as the rounding-level instability of the ascending order ((lmax/lmin)^k growth) stays below the tolerance
        gaps = (evA[1:] - evA[:-1]).abs().min()
        if est_kind in ("exact_sorted", "exact_unsorted") and kind in ("distinct", "geometric") and float(gaps) > 0 and nA > 0:
            amp = math.exp(min(600.0, K * math.log(max(1.0, float(evA.max()) / max(float(evA.min()), 1e-300)))))
            tolfp = 256 * n * u * nA / float(gaps) * amp
            if tolfp < 0.05:
                M = (outd.T @ Q0t.to(D)).abs()
                counters["fixed_point_checked"] += 1
                if est_kind == "exact_sorted":
                    dev = float((torch.diagonal(M) - 1).abs().max())
                else:
                    dev = float((M.max(dim=1).values - 1).abs().max())
                if dev > tolfp:
                    raise Violation(f"QR method moved an exact eigenbasis: max | |<q_out,q_in>| - 1 | = {dev:.3g} > {tolfp:.3g}", **desc)
        if sample is None and nv > 0:
            sample = dict(desc, matched_k=k, comparable_clusters=nv)
    return {"counters": counters, "sigs": sorted(sigs), "sample": sample}


def conclusive(agg, results, tier):
    need = {"eigh_checked": 100, "qr_matched": 100, "qr_backward_checked": 30, "qr_nonvacuous_clusters": 300, "fixed_point_checked": 8, "zero_estimate_fallback": 20, "diag_flag": 5, "scalar": 3}
    low = {k: agg.get(k, 0) for k, v in need.items() if agg.get(k, 0) < v}
    if low:
        return f"too few observations: {low}"
    if agg.get("qr_vacuous", 0) > 0.5 * max(1, agg.get("qr_matched", 0)):
        return "most QR comparisons were vacuous"
    return None
