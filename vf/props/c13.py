"""C13 - failed root computations are tolerated N times then raised; stored roots stay finite.

Real code: DistributedShampoo.step() with scripted faults injected at the names `matrix_inverse_root` / `matrix_eigenvectors`
inside shampoo_preconditioner_list (E6), plus NaN/Inf gradient poisoning.
Oracle: shadow failure counter per block identity; expected raise iff an active block exceeds the tolerance; stored roots compared
bitwise with the last value returned by a successful computation; on PreconditionerValueError the group's parameters are
byte-identical to before the step; NaN/Inf sentinel over all stored roots/bases after every step."""
from __future__ import annotations

import itertools

from ..common import Inconclusive, Violation, beq, import_repo, rng_for, sha, tgen
from ..ref import refresh_due

ID = "C13"
LEVEL = "fault_enumeration"
RULE = (
    "bounded-exhaustive family: two blocks, all 2^6 fail/succeed scripts for one of them x all 2^6 presence scripts of the other over 6 refreshes "
    "(thorough: all 4096 per listed (tolerance, list kind, order) combination; quick: a 1/8 sample), tolerance N in 0..3, Shampoo and SOAP lists; random family: 2-4 blocks, "
    "per-factor failures, bursts, blocks entering/leaving between refreshes, precondition_frequency 1..3, several exception classes; poison family: NaN/Inf "
    "gradients at and off refresh steps, matrix routine returning NaN/Inf. One run = one evaluation. Non-trivial: >=1 injected failure reached the code and the "
    "run contained a mask change. Distinct by (family, list kind, N, frequency, failure script, presence script)."
)
ASSUMPTIONS = [
    "blocks have pairwise distinct factor sizes so that the fault wrapper identifies (block, factor) from the matrix it is handed, independent of call order",
    "a refresh in which a block has no gradient neither increments nor resets that block's count (the block takes no part in it)",
    "any exception class other than PreconditionerValueError counts as the tolerance error (the property names none)",
    "the run ends at the first raised step (the optimizer is mid-step afterwards)",
]
EXHAUSTIVE = {"thorough": "all 2^6 x 2^6 (fail script x presence script) pairs per (N, list kind, block order) combination listed in the cases"}
TIMEOUT = {"quick": 1200, "thorough": 5400}
ANCHORS = {
    "distributed_shampoo/utils/shampoo_preconditioner_list.py": ["ShampooPreconditionerList._amortized_computation", "EigenvalueCorrectedShampooPreconditionerList._amortized_computation", "BaseShampooPreconditionerList._raise_exception_if_failure_tolerance_exceeded", "BaseShampooPreconditionerList.compress_preconditioner_list", "BaseShampooPreconditionerList._check_factor_matrix_for_diagonality_nan_and_inf"],
}
SHAPES = [[2, 3], [4, 5], [6, 7], [8, 9]]


class Injected(Exception):
    """'throws' in the property is any Exception: not only the arithmetic / runtime families"""


def gen_cases(tier, seed):
    rnd = rng_for(seed, ID, tier)
    cases = []
    pairs = list(itertools.product(range(64), range(64)))
    combos = [(N, kind, first) for N in (0, 1, 2, 3) for kind in ("shampoo", "soap") for first in (0, 1)]
    if tier == "quick":
        for ci, (N, kind, first) in enumerate(combos):
            sub = rnd.sample(pairs, 512 // 2)
            for i in range(0, len(sub), 64):
                cases.append({"id": f"ex_{N}_{kind}_{first}_{i // 64}", "family": "exh", "N": N, "kind": kind, "failing_first": first, "pairs": sub[i : i + 64], "seed": [seed, ci]})
    else:
        for ci, (N, kind, first) in enumerate(combos):
            for i in range(0, len(pairs), 128):
                cases.append({"id": f"ex_{N}_{kind}_{first}_{i // 128}", "family": "exh", "N": N, "kind": kind, "failing_first": first, "pairs": pairs[i : i + 128], "seed": [seed, ci]})
    for i in range(200 if tier == "quick" else 3000):
        cases.append({"id": f"rnd{i}", "family": "rnd", "seed": [seed, "rnd", i]})
    for i in range(64 if tier == "quick" else 600):
        cases.append({"id": f"poison{i}", "family": "poison", "seed": [seed, "poison", i]})
    return cases


class FaultWrapper:
    """replaces a matrix routine name inside shampoo_preconditioner_list; consults the plan of the current step"""

    def __init__(self, orig, size_to_slot):
        self.orig = orig
        self.size_to_slot = size_to_slot
        self.plan = {}  # (block, factor) -> action
        self.calls = []  # (block, factor, action, returned tensor or None)
        self.evaluations = 0

    def __call__(self, *args, **kwargs):
        import torch

        A = kwargs.get("A", args[0] if args else None)
        n = int(A.shape[0]) if A is not None and A.dim() == 2 else -1
        slot = self.size_to_slot.get(n)
        self.evaluations += 1
        action = self.plan.get(slot, "ok")
        if action.startswith("raise"):
            self.calls.append((slot, action, None))
            exc = {"raise": Injected, "raise_arith": ArithmeticError, "raise_value": ValueError, "raise_lin": torch.linalg.LinAlgError if hasattr(torch.linalg, "LinAlgError") else RuntimeError, "raise_mem": MemoryError, "raise_assert": AssertionError, "raise_key": KeyError}[action]
            raise exc(f"injected failure for slot {slot}")
        out = self.orig(*args, **kwargs)
        if action in ("nan", "inf"):
            out = out.clone()
            out[(0,) * out.dim()] = float(action)
            self.calls.append((slot, action, None))
            return out
        self.calls.append((slot, "ok", out.detach().clone()))
        return out


def _build(ds, torch, kind, N, freq, start, shapes, seed, dtype="float32", qr=False, extra=None, group_N=None):
    from .. import gen as G

    cfg = {
        "lr": 0.01, "betas": [0.9, 0.99], "beta3": -1.0, "epsilon": 1e-4, "momentum": 0.0, "dampening": 0.0, "weight_decay": 0.0, "max_preconditioner_dim": 1024,
        "precondition_frequency": freq, "start_preconditioning_step": start, "inv_root_override": 0, "use_nesterov": False, "use_bias_correction": True,
        "use_decoupled_weight_decay": True, "grafting": {"type": "adagrad", "epsilon": 1e-3}, "use_merge_dims": False, "preconditioner_dtype": "float32", "param_dtype": dtype,
        "precond": {"kind": kind, "ignored_dims": [], "num_tolerated": N, "solver": ({"type": "qr", "max_iterations": 1, "tolerance": 1e-5} if qr else {"type": "eigh"}) if kind == "soap" else {"type": "eigen", "enhance_stability": False, "exponent_multiplier": 1.0}},
    }
    cfg.update(extra or {})
    params = G.make_params(torch, shapes, getattr(torch, dtype), tgen(*seed, "init"))
    groups = None
    if group_N is not None:
        # two param groups, the second overriding preconditioner_config with its own tolerance
        cut = len(shapes) // 2
        pc2 = dict(cfg["precond"], num_tolerated=group_N[1])
        groups = [{"params": list(range(0, cut)), "overrides": {}}, {"params": list(range(cut, len(shapes))), "overrides": {"precond": pc2}}]
    opt = G.build_optimizer(ds, torch, cfg, params, groups)
    return cfg, params, opt


def _roots(opt, p, kind):
    sh = opt.state[p]["block_0"]["shampoo"]
    return list(sh.inv_factor_matrices if kind == "shampoo" else sh.factor_matrices_eigenvectors)


def drive(ds, torch, kind, N, freq, start, shapes, presence, plans, seed, counters, *, qr=False, grad_poison=None, dtype="float32", extra=None, zero_grad=(), expect_store_overflow=False, group_N=None, onehot=()):
    """run one history under the fault wrapper; raises Violation.  presence[t][j]; plans[t] = {(block, factor): action}."""
    import distributed_shampoo.utils.shampoo_preconditioner_list as pl

    name = "matrix_inverse_root" if kind == "shampoo" else "matrix_eigenvectors"
    import matrix_functions as mfmod

    # the routine is reached either through the name shampoo_preconditioner_list imported or through the matrix_functions
    # module attribute (`import matrix_functions as x; x.matrix_inverse_root(...)`): the injector attaches at both
    sites = [m for m in (pl, mfmod) if hasattr(m, name)]
    if not sites:
        raise Inconclusive(f"{name} is neither a name in shampoo_preconditioner_list nor in matrix_functions: the fault injector cannot attach")
    size_to_slot = {}
    for j, s in enumerate(shapes):
        for f, n in enumerate(s):
            size_to_slot[n] = (j, f)
    cfg, params, opt = _build(ds, torch, kind, N if group_N is None else group_N[0], freq, start, shapes, seed, dtype=dtype, qr=qr, extra=extra, group_N=group_N)
    cut = len(shapes) // 2
    gof = [0 if (group_N is None or j < cut) else 1 for j in range(len(shapes))]
    Nof = [N if group_N is None else group_N[gof[j]] for j in range(len(shapes))]
    t_groups = [0, 0]
    originals = [(m, getattr(m, name)) for m in sites]
    wrap = FaultWrapper(originals[0][1], size_to_slot)
    for m, _ in originals:
        setattr(m, name, wrap)
    try:
        gg = tgen(*seed, "grads")
        shadow = [0] * len(shapes)
        last_good = {}
        t_group = 0
        for t in range(len(presence)):
            for j, p in enumerate(params):
                p.grad = (torch.randn(p.shape, generator=gg, dtype=torch.float32).to(p.dtype) * (0.0 if j in zero_grad else 1.0)) if presence[t][j] else None
                if p.grad is not None and j in onehot:
                    # one-hot gradients keep every Gram matrix exactly diagonal (the factor stays flagged diagonal)
                    val_ = float(p.grad.view(-1)[0])
                    k_ = int(torch.randint(0, p.numel(), (1,), generator=gg))
                    p.grad.zero_()
                    p.grad.view(-1)[0 if (grad_poison and grad_poison.get(t, {}).get(j)) else k_] = val_
                if p.grad is not None and grad_poison and grad_poison.get(t, {}).get(j):
                    p.grad.view(-1)[0] = float(grad_poison[t][j])
            active = [j for j in range(len(params)) if presence[t][j]]
            if active:
                t_group += 1
            for g_ in (0, 1):
                if any(gof[j] == g_ for j in active):
                    t_groups[g_] += 1
            if group_N is not None:
                # refresh is decided per group; the plan of a step is delivered to whichever groups refresh
                refresh_g = [any(gof[j] == g_ for j in active) and refresh_due(t_groups[g_], start, freq) for g_ in (0, 1)]
                refresh = any(refresh_g)
                active = [j for j in active if refresh_g[gof[j]]] if refresh else active
            else:
                refresh = bool(active) and refresh_due(t_group, start, freq)
            wrap.plan = dict(plans.get(t, {})) if refresh else {}
            wrap.calls = []
            before_roots = {j: [r.detach().clone() for r in _roots(opt, params[j], kind)] for j in range(len(params))}
            before_params = [sha(p.detach()) for p in params]
            try:
                opt.step()
                raised = None
            except Exception as e:  # noqa
                raised = e
            desc = {"kind": kind, "N": N, "frequency": freq, "start": start, "step": t + 1, "group_step": t_group, "refresh": refresh, "presence": presence[: t + 1], "plan": {str(k): v for k, v in wrap.plan.items()}, "shadow_before": list(shadow)}
            # --- expected outcome from the shadow counters
            fatal = None
            tol_exceeded = False
            if refresh:
                for j in active:
                    acts = [wrap.plan.get((j, f), "ok") for f in range(len(shapes[j]))]
                    if any(a in ("nan", "inf") for a in acts):
                        fatal = "pve"
                        break
                    if any(a.startswith("raise") for a in acts):
                        shadow[j] += 1
                    else:
                        shadow[j] = 0
                    if shadow[j] > Nof[j]:
                        tol_exceeded = True
                        break
                counters["refreshes"] += 1
                counters["injected_failures_delivered"] += sum(1 for c in wrap.calls if c[1].startswith("raise"))
                counters["poison_returns_delivered"] += sum(1 for c in wrap.calls if c[1] in ("nan", "inf"))
            elif wrap.calls:
                raise Violation("a matrix routine was called at a step that is not a refresh step", **desc)
            is_pve = raised is not None and type(raised).__name__ == "PreconditionerValueError"
            grad_nan_now = bool(grad_poison) and refresh and any(grad_poison.get(u, {}).get(j) for u in range(t + 1) for j in active)
            if grad_nan_now or (expect_store_overflow and refresh):
                fatal = "pve"
            if fatal == "pve":
                counters["pve_expected"] += 1
                if not is_pve:
                    raise Violation(f"NaN/Inf reached a refresh (factor matrix or computed matrix) but step() {'raised ' + type(raised).__name__ if raised else 'did not raise'} instead of PreconditionerValueError", **desc)
                for j, p in enumerate(params):
                    if sha(p.detach()) != before_params[j]:
                        raise Violation(f"PreconditionerValueError was raised after parameter {j} of the group had been modified", **desc)
                for j in range(len(params)):
                    for f, r in enumerate(_roots(opt, params[j], kind)):
                        if not bool(torch.isfinite(r).all()):
                            raise Violation(f"stored root/basis ({j},{f}) is non-finite after PreconditionerValueError", **desc)
                return "pve"
            if tol_exceeded:
                counters["tolerance_raises_expected"] += 1
                if raised is None:
                    raise Violation(f"a block has had {max(shadow)} > {N} consecutive failing refreshes but step() did not raise", shadow=list(shadow), **desc)
                if is_pve:
                    raise Violation("tolerance exceeded but the NaN/Inf error class was raised", **desc)
                return "raised"
            if raised is not None:
                if isinstance(raised, Injected):
                    raise Violation("an injected computation failure propagated out of step() instead of being tolerated", shadow=list(shadow), **desc)
                raise Violation(f"step() raised {type(raised).__name__} although no active block exceeded {N} consecutive failing refreshes (shadow {shadow}): {raised}"[:500], shadow=list(shadow), **desc)
            # --- no raise: stored matrices
            for j in range(len(params)):
                now = _roots(opt, params[j], kind)
                for f, r in enumerate(now):
                    if not bool(torch.isfinite(r).all()):
                        raise Violation(f"stored root/basis ({j},{f}) is non-finite", **desc)
                    call = next((c for c in wrap.calls if c[0] == (j, f)), None)
                    if not refresh or j not in active or (call is not None and call[1].startswith("raise")):
                        if not beq(r, before_roots[j][f]):
                            why = "off schedule" if not refresh else ("without gradient" if j not in active else "although its computation failed")
                            raise Violation(f"stored root/basis ({j},{f}) changed {why}", **desc)
                        if call is not None:
                            counters["fallback_checked"] += 1
                    elif call is not None and call[2] is not None:
                        if not beq(r, call[2].to(r.dtype)):
                            raise Violation(f"stored root/basis ({j},{f}) differs from the value its successful computation returned", **desc)
                        counters["stored_checked"] += 1
        return "completed"
    finally:
        for m, f in originals:
            setattr(m, name, f)
        counters["wrapper_evaluations"] += wrap.evaluations


def _new_counters():
    return {k: 0 for k in ("runs_with_group_override", "evals", "refreshes", "injected_failures_delivered", "poison_returns_delivered", "pve_expected", "tolerance_raises_expected", "fallback_checked", "stored_checked", "wrapper_evaluations", "runs_with_mask_change")}


def run_case(case):
    ds = import_repo()
    import torch

    counters = _new_counters()
    sigs = []
    sample = None
    if case["family"] == "exh":
        N, kind, first = case["N"], case["kind"], case["failing_first"]
        shapes = SHAPES[:2]
        fi, oi = (0, 1) if first else (1, 0)
        for fs, ps in case["pairs"]:
            presence, plans = [], {}
            for r in range(6):
                row = [True, True]
                row[oi] = bool(ps >> r & 1)
                presence.append(row)
                if fs >> r & 1:
                    plans[r] = {(fi, 0): "raise"}
            out = drive(ds, torch, kind, N, 1, 1, shapes, presence, plans, case["seed"] + [fs, ps], counters)
            counters["evals"] += 1
            changes = sum(1 for a, b in zip(presence, presence[1:]) if a != b)
            if changes:
                counters["runs_with_mask_change"] += 1
            if fs and changes:
                sigs.append(["exh", kind, N, first, fs, ps])
            if sample is None and fs and changes:
                sample = {"family": "exh", "kind": kind, "N": N, "fail_script_bits": fs, "presence_script_bits": ps, "failing_block_listed_first": bool(first), "outcome": out}
        return {"counters": counters, "sigs": sigs, "sample": sample}

    rnd = rng_for(*case["seed"])
    kind = rnd.choice(["shampoo", "soap"])
    qr = kind == "soap" and rnd.random() < 0.5
    N = rnd.choice([0, 1, 2, 3])
    freq = rnd.choice([1, 1, 2, 3])
    start = rnd.choice([freq, freq + 1, 2 * freq])
    nb = rnd.randint(2, 4)
    shapes = SHAPES[:nb]
    rnd.shuffle(shapes)
    T = rnd.randint(6, 16)
    from .. import gen as G

    pk, presence = G.rand_presence(rnd, nb, T, kind=rnd.choice(["toggle", "random", "random", "bursts", "all_absent_steps", "never_one"]))
    if case["family"] == "rnd":
        plans = {}
        pfail = rnd.choice([0.2, 0.5, 0.8])
        burst = rnd.random() < 0.4
        for t in range(T):
            pl_ = {}
            for j in range(nb):
                for f in range(2):
                    if rnd.random() < (pfail if not burst else (0.9 if (t // 3) % 2 else 0.05)):
                        pl_[(j, f)] = rnd.choice(["raise", "raise", "raise_arith", "raise_value", "raise_lin", "raise_mem", "raise_assert", "raise_key"])
            plans[t] = pl_
        group_N = None
        if nb >= 2 and rnd.random() < 0.3:
            group_N = [N, rnd.choice([x for x in (0, 1, 2, 3) if x != N])]  # second param group overrides preconditioner_config
            counters["runs_with_group_override"] = 1
        out = drive(ds, torch, kind, N, freq, start, shapes, presence, plans, case["seed"], counters, qr=qr, group_N=group_N)
        counters["evals"] += 1
        changes = sum(1 for a, b in zip(presence, presence[1:]) if a != b)
        counters["runs_with_mask_change"] += bool(changes)
        if counters["injected_failures_delivered"] and changes:
            sigs.append(["rnd", kind, qr, N, freq, pk, nb, out, group_N])
        return {"counters": counters, "sigs": sigs, "sample": {"family": "rnd", "group_N": group_N, "kind": kind, "qr": qr, "N": N, "frequency": freq, "start": start, "shapes": shapes, "presence_kind": pk, "outcome": out, "plan_step0": {str(k): v for k, v in plans[0].items()}}}

    # poison family
    mode = rnd.choice(["grad_at_refresh", "grad_off_refresh", "routine_returns", "store_overflow", "diag_factor"])
    if mode == "diag_factor":
        # NaN/Inf in a factor matrix that is (and stays flagged) exactly diagonal: a one-element block or one-hot gradients.
        # An infinite diagonal entry inverts entry-wise to a finite 0, so only the check of the FACTOR can stop it.
        val = rnd.choice(["nan", "inf", "-inf", "inf"])
        first = rnd.choice([[1], [4]])
        shapes = [first, [2, 3]] if rnd.random() < 0.5 else [[2, 3], first]
        zj = shapes.index(first)
        presence = [[True, True] for _ in range(T)]
        cand = [t for t in range(T) if refresh_due(t + 1, start, freq)] or [0]
        gp = {rnd.choice(cand): {zj: val}}
        out = drive(ds, torch, kind, N, freq, start, shapes, presence, {}, case["seed"], counters, qr=qr, grad_poison=gp, onehot={zj})
        counters["evals"] += 1
        counters["diag_factor_poison_runs"] = counters.get("diag_factor_poison_runs", 0) + 1
        return {"counters": counters, "sigs": [["poison", "diag_factor", kind, val, first[0], freq]] if out == "pve" else [], "sample": {"family": "poison", "mode": mode, "kind": kind, "value": val, "shapes": shapes, "outcome": out}}
    if mode == "store_overflow":
        # the computed root is finite in the preconditioner dtype but overflows the (float16) dtype it is stored in:
        # (0 + 1e-10)^(-1/2) = 1e5 > 65504 for a 1-D block whose gradient is identically zero
        shapes = [[5], [2, 3]] if rnd.random() < 0.5 else [[2, 3], [5]]
        zj = shapes.index([5])
        presence = [[True, True] for _ in range(T)]
        out = drive(ds, torch, "shampoo", N, freq, start, shapes, presence, {}, case["seed"], counters, dtype="float16", extra={"epsilon": 1e-10, "grafting": None}, zero_grad={zj}, expect_store_overflow=True)
        counters["evals"] += 1
        return {"counters": counters, "sigs": [["poison", "store_overflow", freq, zj]] if out == "pve" else [], "sample": {"family": "poison", "mode": mode, "shapes": shapes, "dtype": "float16", "outcome": out}}
    val = rnd.choice(["nan", "inf", "-inf"])
    presence = [[True] * nb for _ in range(T)]
    plans, gp = {}, None
    if mode == "routine_returns":
        t0 = rnd.randrange(T)
        plans[t0] = {(rnd.randrange(nb), rnd.randrange(2)): "nan" if "nan" in val else "inf"}
        for t in range(t0 + 1, T):
            plans[t] = dict(plans[t0])
    else:
        if mode == "grad_off_refresh" and freq == 1:
            freq, start = 2, 2
        cand = [t for t in range(T) if refresh_due(t + 1, start, freq) == (mode == "grad_at_refresh")] or [0]
        gp = {rnd.choice(cand): {rnd.randrange(nb): val}}
    out = drive(ds, torch, kind, N, freq, start, shapes, presence, plans, case["seed"], counters, qr=qr, grad_poison=gp)
    counters["evals"] += 1
    if out == "pve":
        sigs.append(["poison", kind, qr, mode, val, freq])
    return {"counters": counters, "sigs": sigs, "sample": {"family": "poison", "kind": kind, "mode": mode, "value": val, "frequency": freq, "start": start, "outcome": out}}


def conclusive(agg, results, tier):
    if agg.get("wrapper_evaluations", 0) == 0:
        return "the fault wrapper was never evaluated (the matrix routines are not reached through the patched names)"
    need = {"injected_failures_delivered": 500, "tolerance_raises_expected": 100, "pve_expected": 20, "fallback_checked": 300, "stored_checked": 300, "runs_with_mask_change": 200}
    low = {k: agg.get(k, 0) for k in need if agg.get(k, 0) < need[k]}
    return f"too few observations: {low}" if low else None
