"""C14 - block-to-rank assignment: deterministic balanced partition, disjoint buffers, state only on owners.

Real code: the three copies of _distribute_buffer_sizes / _split_local_dist_buffers / _construct_distributed_buffers
(DDP, HSDP, HybridShard) called directly, and live distributors/optimizers on simulated ranks (family 'live').
Oracle: tie-agnostic LPT-consistency checker, brute-force optimum on small instances, byte-level buffer geometry,
per-rank optimizer.state key sets."""
from __future__ import annotations

import itertools
import math
import types

from ..blocking import brute_force_opt, lpt_consistent
from ..common import Inconclusive, Violation, import_repo, rng_for

ID = "C14"
LEVEL = "exploration"
RULE = (
    "direct family: every multiset of <=7 block byte sizes from {1,63,64,65,128,500} x group sizes 1..4 (exhaustive, ties everywhere) plus random "
    "sequences of up to 200 blocks for group sizes 1..16, for each of the three copies; buffer family: block shapes x communication dtypes through the "
    "real buffer construction; live family: DDP/HSDP/HybridShard optimizers on simulated ranks (state placement, live buffer geometry). "
    "One call of an assignment routine = one evaluation. Non-trivial: >=2 ranks and >=1 tie among (aligned) sizes. Distinct by (copy, group size, #blocks bucket, #distinct sizes, tie pattern hash)."
)
ASSUMPTIONS = [
    "loads are measured in the aligned buffer sizes the routine returns (that is what is allocated and balanced)",
    "tie-breaking among equal sizes / equally loaded ranks is not judged (LPT-consistency, not equality with one LPT run)",
    "direct calls use a stub object carrying the group size under the attribute names the three copies read; if those names move the direct family is skipped and only the live family decides",
]
EXHAUSTIVE = {"quick": "multisets of <=5 sizes from {1,63,64,65,128,500} x group sizes 1..4 x 3 copies", "thorough": "multisets of <=7 sizes from {1,63,64,65,128,500} x group sizes 1..4 x 3 copies"}
TIMEOUT = {"quick": 900, "thorough": 3600}
CONFIRM_BY_RERUN = True  # ranks are threads here: an alarm must reproduce in a fresh process (vf/main.py)
ANCHORS = {
    "distributed_shampoo/utils/shampoo_ddp_distributor.py": ["DDPDistributor._distribute_buffer_sizes", "DDPDistributor._split_local_dist_buffers", "DDPDistributor._construct_distributed_buffers"],
    "distributed_shampoo/utils/shampoo_hsdp_distributor.py": ["HSDPDistributor._distribute_buffer_sizes", "HSDPDistributor._split_local_dist_buffers", "HSDPDistributor._construct_distributed_buffers"],
    "distributed_shampoo/utils/shampoo_hybrid_shard_distributor.py": ["HybridShardDistributor._distribute_buffer_sizes", "HybridShardDistributor._split_local_dist_buffers", "HybridShardDistributor._construct_distributed_buffers"],
}
SIZES = [1, 63, 64, 65, 128, 500]


def gen_cases(tier, seed):
    rnd = rng_for(seed, ID, tier)
    cases = []
    kmax = 5 if tier == "quick" else 7
    for k in range(1, kmax + 1):
        ms = list(itertools.combinations_with_replacement(SIZES, k))
        chunk = 150
        for i in range(0, len(ms), chunk):
            cases.append({"id": f"ex_k{k}_{i // chunk}", "family": "direct", "instances": [list(m) for m in ms[i : i + chunk]], "groups": [1, 2, 3, 4], "shuffle_seed": [seed, k, i]})
    nr = 30 if tier == "quick" else 300
    for i in range(nr):
        insts = []
        for _ in range(20):
            k = rnd.randint(1, 9 if rnd.random() < 0.6 else 200)
            pool = rnd.choice([[1, 4, 63, 64, 65, 128, 500, 512, 1000], [64, 128], [100], list(range(1, 3000, 7)), [0, 1, 64], [2**28, 2**28 + 64, 2**30, 2**31 - 64, 2**31, 2**33 + 1], [2**28]])  # incl. loads beyond 2^31 bytes
            insts.append([rnd.choice(pool) for _ in range(k)])
        cases.append({"id": f"rnd{i}", "family": "direct", "instances": insts, "groups": sorted(rnd.sample(range(1, 17), 4)), "shuffle_seed": [seed, "r", i]})
    nb = 16 if tier == "quick" else 160
    for i in range(nb):
        cases.append({"id": f"buf{i}", "family": "buffers", "seed": [seed, "buf", i], "n": 12})
    modes = ["ddp", "hsdp", "hybrid"]
    for i in range(60 if tier == "quick" else 480):
        cases.append({"id": f"live{i}", "family": "live", "mode": modes[i % 3], "seed": [seed, "live", i]})
    return cases


_cls = None


def _copies():
    global _cls
    if _cls is None:
        import_repo()
        out = {}
        for name, mod, cls in (("ddp", "shampoo_ddp_distributor", "DDPDistributor"), ("hsdp", "shampoo_hsdp_distributor", "HSDPDistributor"), ("hybrid", "shampoo_hybrid_shard_distributor", "HybridShardDistributor")):
            try:
                m = __import__(f"distributed_shampoo.utils.{mod}", fromlist=[cls])
                out[name] = getattr(m, cls)
            except (ImportError, AttributeError):
                pass
        if not out:
            raise Inconclusive("no distributor class could be imported")
        _cls = out
    return _cls


class _Stub(types.SimpleNamespace):
    """stand-in for `self` in direct calls of the private assignment / buffer routines.  Attributes the routine reads under a name
    this harness does not know are answered by role (a renamed private attribute must not blind the family): *selector* -> the
    ownership selector, *block*param* -> the blocks, *size* -> the group size."""

    def __getattr__(self, name):
        d = self.__dict__
        low = name.lower()
        if "selector" in low and "_distributor_selector" in d:
            return d["_distributor_selector"]
        if "block" in low and "param" in low and "_global_blocked_params" in d:
            return d["_global_blocked_params"]
        if "size" in low and "_group_size" in d:
            return d["_group_size"]
        raise AttributeError(name)


def _stub(G, **kw):
    return _Stub(_group_size=G, _dist_group_size=G, **kw)


def _call_assign(cls, sizes, G):
    try:
        return cls._distribute_buffer_sizes(_stub(G), tuple(sizes))
    except AttributeError as e:
        raise Inconclusive(f"direct call of _distribute_buffer_sizes could not attach: {e}")


def check_assignment(name, sizes, G, out, counters, sigs, small):
    desc = {"copy": name, "sizes": list(sizes)[:40], "n_blocks": len(sizes), "group_size": G, "result": [list(x) for x in out][:40]}
    if len(out) != len(sizes):
        raise Violation(f"{name}: {len(out)} assignments for {len(sizes)} blocks", **desc)
    aligned = [int(a) for a, _ in out]
    ranks = [int(r) for _, r in out]
    for s, a, r in zip(sizes, aligned, ranks):
        if not (0 <= r < G):
            raise Violation(f"{name}: block assigned to rank {r} outside the group of size {G}", **desc)
        if a % 64 != 0 or a < s:
            raise Violation(f"{name}: buffer size {a} for a block of {s} bytes is not 64-byte aligned / too small", **desc)
    ok, why = lpt_consistent(aligned, ranks, G)
    if not ok:
        raise Violation(f"{name}: assignment is not largest-first-to-least-loaded: {why}", **desc)
    loads = [sum(a for a, r in zip(aligned, ranks) if r == g) for g in range(G)]
    if max(loads) - min(loads) > max(aligned):
        raise Violation(f"{name}: load spread {max(loads) - min(loads)} exceeds the largest block {max(aligned)}", loads=loads, **desc)
    if small and len(sizes) <= 9 and G <= 4:
        opt = brute_force_opt(aligned, G)
        counters["opt_compared"] += 1
        if 3 * max(loads) > 4 * opt:
            raise Violation(f"{name}: max load {max(loads)} exceeds 4/3 of the optimum {opt}", loads=loads, **desc)
    if G >= 2 and len(set(aligned)) < len(aligned):
        counters["with_ties"] += 1
        sigs.add((name, G, min(8, len(sizes).bit_length()), len(set(aligned)), hash(tuple(sorted(aligned))) % 997))


def _direct(case):
    copies = _copies()
    rnd = rng_for(*case["shuffle_seed"])
    counters = {"evals": 0, "with_ties": 0, "opt_compared": 0, "determinism_checks": 0, "copies_attached": len(copies)}
    sigs = set()
    for sizes in case["instances"]:
        sizes = list(sizes)
        rnd.shuffle(sizes)
        for G in case["groups"]:
            outs = {}
            for name, cls in copies.items():
                out = _call_assign(cls, sizes, G)
                counters["evals"] += 1
                check_assignment(name, sizes, G, out, counters, sigs, small=True)
                outs[name] = out
                # determinism: same sizes -> same assignment, also when interleaved with an unrelated call
                _call_assign(cls, [7, 7, 900], max(1, G - 1))
                again = _call_assign(cls, list(sizes), G)
                counters["determinism_checks"] += 1
                if tuple(again) != tuple(out):
                    raise Violation(f"{name}: two calls with the same sizes disagree", sizes=sizes[:40], group_size=G, first=[list(x) for x in out][:40], second=[list(x) for x in again][:40])
    return {"counters": counters, "sigs": sorted(sigs), "sample": {"sizes": case["instances"][0], "groups": case["groups"]}}


def _buffers(case):
    import torch

    copies = _copies()
    rnd = rng_for(*case["seed"])
    counters = {"evals": 0, "buffer_views_checked": 0, "copies_attached": len(copies)}
    sigs = set()
    sample = None
    for inst in range(case["n"]):
        G = rnd.randint(1, 8)
        nblk = rnd.randint(max(1, G), 24)
        shapes = [tuple(rnd.choice([1, 2, 3, 4, 5, 7, 8, 16, 17]) for _ in range(rnd.randint(0, 3))) for _ in range(nblk)]
        if rnd.random() < 0.4:
            shapes = [rnd.choice(shapes[:3]) for _ in range(nblk)]  # many equal-sized blocks
        comm = rnd.choice([torch.float32, torch.float16, torch.bfloat16])
        isz = torch.tensor([], dtype=comm).element_size()
        blocks = [torch.zeros(s) for s in shapes]
        sizes = [b.numel() * isz for b in blocks]
        for name, cls in copies.items():
            out = _call_assign(cls, sizes, G)
            counters["evals"] += 1
            check_assignment(name, sizes, G, out, counters_dummy := {"opt_compared": 0, "with_ties": 0}, sigs, small=False)
            for group_rank in sorted({0, G - 1, rnd.randrange(G)}):
                sel = tuple(r == group_rank for _, r in out)
                st = _stub(G, _global_blocked_params=tuple(blocks), _distributor_selector=sel)
                try:
                    cls._construct_distributed_buffers(st, out, comm, group_rank)
                    gbuf = st._global_dist_buffer
                    views = st._global_dist_blocked_buffers
                    lbuf = st._local_dist_buffer
                except AttributeError as e:
                    raise Inconclusive(f"direct call of _construct_distributed_buffers could not attach: {e}")
                total = gbuf.numel() * gbuf.element_size()
                if total % G:
                    raise Violation(f"{name}: gather buffer of {total} bytes is not divisible into {G} equal segments")
                seg = total // G
                base = gbuf.data_ptr()
                desc = {"copy": name, "group_size": G, "shapes": [list(s) for s in shapes][:30], "comm_dtype": str(comm), "assignment": [list(x) for x in out][:30]}
                if lbuf.data_ptr() != base + group_rank * seg or lbuf.numel() * lbuf.element_size() != seg:
                    raise Violation(f"{name}: local send buffer is not segment {group_rank} of the gather buffer", **desc)
                spans = []
                for i, (v, blk, (a, r)) in enumerate(zip(views, blocks, out)):
                    off = v.data_ptr() - base
                    nb = v.numel() * v.element_size()
                    counters["buffer_views_checked"] += 1
                    if v.untyped_storage().data_ptr() != gbuf.untyped_storage().data_ptr():
                        raise Violation(f"{name}: buffer of block {i} is not a view of the gather buffer", **desc)
                    if v.dtype != comm or tuple(v.shape) != tuple(blk.shape):
                        raise Violation(f"{name}: buffer of block {i} has dtype/shape {v.dtype}/{tuple(v.shape)}, expected {comm}/{tuple(blk.shape)}", **desc)
                    if nb < blk.numel() * isz:
                        raise Violation(f"{name}: buffer of block {i} holds {nb} bytes < block size {blk.numel() * isz}", **desc)
                    if not (r * seg <= off and off + nb <= (r + 1) * seg):
                        raise Violation(f"{name}: buffer of block {i} [{off},{off + nb}) lies outside its owner's segment [{r * seg},{(r + 1) * seg})", **desc)
                    if blk.numel() and not v.is_contiguous():
                        raise Violation(f"{name}: buffer view of block {i} is not contiguous", **desc)
                    if nb:
                        spans.append((off, off + nb, i))
                spans.sort()
                for x, y in zip(spans, spans[1:]):
                    if x[1] > y[0]:
                        raise Violation(f"{name}: buffers of blocks {x[2]} and {y[2]} overlap", **desc)
                # the per-owner slots themselves (aligned sizes) must also fit: sum of aligned sizes per rank <= segment
                for g in range(G):
                    if sum(a for a, r in out if r == g) > seg:
                        raise Violation(f"{name}: aligned slots of rank {g} exceed its segment", **desc)
                # local views are exactly the owner's blocks
                loc = st._local_dist_blocked_buffers
                if [x.data_ptr() for x in loc] != [v.data_ptr() for v, s_ in zip(views, sel) if s_]:
                    raise Violation(f"{name}: local buffer list is not the owner's sub-list of the global list", **desc)
            if sample is None:
                sample = {"copy": name, "group_size": G, "shapes": [list(s) for s in shapes][:8], "comm_dtype": str(comm), "assignment": [list(x) for x in out][:8]}
    return {"counters": counters, "sigs": sorted(sigs), "sample": sample}


def run_case(case):
    import_repo()
    if case["family"] == "direct":
        return _direct(case)
    if case["family"] == "buffers":
        return _buffers(case)
    from . import c14_live

    return c14_live.run(case)


def conclusive(agg, results, tier):
    need = {"with_ties": 200, "opt_compared": 200, "buffer_views_checked": 500, "determinism_checks": 200, "live_blocks_placed": 100, "live_buffer_views_checked": 100}
    low = {k: agg.get(k, 0) for k in need if agg.get(k, 0) < need[k]}
    if low:
        return f"too few observations: {low}"
    return None
