"""C14 'live' family: state placement and buffer geometry of live DDP / HSDP / HybridShard distributors on simulated ranks."""
from __future__ import annotations

from ..common import Inconclusive, Violation, import_repo
from ..distlib import COMM


def _check_buffers(torch, geo, comm, G, group_rank, desc):
    if geo is None:
        return 0
    isz = torch.tensor([], dtype=getattr(torch, COMM[comm])).element_size()
    n = 0
    for g in geo:
        total = g["total"]
        if total % G:
            raise Violation("live gather buffer is not divisible into equal per-rank segments", **desc)
        seg = total // G
        if g["local"] != (group_rank * seg, seg):
            raise Violation(f"live send buffer of group rank {group_rank} is not its segment of the gather buffer", **desc)
        spans = []
        for i, ((off, nb, same), numel) in enumerate(zip(g["views"], g["block_bytes"])):
            n += 1
            if not same:
                raise Violation(f"live buffer of block {i} is not a view of the gather buffer", **desc)
            if nb < numel * isz:
                raise Violation(f"live buffer of block {i} holds {nb} bytes < block size {numel * isz}", **desc)
            r = off // seg if seg else 0
            if off + nb > (r + 1) * seg:
                raise Violation(f"live buffer of block {i} crosses a segment boundary", **desc)
            if nb:
                spans.append((off, off + nb, i))
        spans.sort()
        for x, y in zip(spans, spans[1:]):
            if x[1] > y[0]:
                raise Violation(f"live buffers of blocks {x[2]} and {y[2]} overlap", **desc)
    return n


def run(case):
    ds = import_repo()
    import torch

    from .. import ranksim
    from . import c06, c07

    counters = {"evals": 1, "live_blocks_placed": 0, "live_buffer_views_checked": 0, "live_worlds": 1}
    from ..common import KernelObserver

    kobs = KernelObserver()
    if case["mode"] == "ddp":
        S = c06.make_setup({"seed": case["seed"]})
        S["T"] = min(S["T"], 3)
        if case["seed"][-1] % 6 == 0 and S["W"] >= 2 and not S.get("groups"):
            # a multi-block parameter FOLLOWED by further parameters, blocks of unequal size: the layout in which the owner of a
            # block (state placement, block info) and the segment of its buffer view can drift apart
            import random as _r

            rr = _r.Random(case["seed"][-1])
            S["cfg"]["use_merge_dims"] = False
            S["cfg"]["max_preconditioner_dim"] = rr.choice([3, 4, 5])
            S["shapes"] = [[rr.choice([7, 9, 10, 11]), rr.choice([2, 3, 4])], [rr.choice([3, 5])], [rr.choice([2, 4]), 2], [rr.choice([6, 8])]][: rr.choice([3, 4])]
            while sum(-(-s[0] // S["cfg"]["max_preconditioner_dim"]) for s in S["shapes"]) < S["G"]:
                S["shapes"].append([5])
            S["presence"] = [[True] * len(S["shapes"]) for _ in range(S["T"])]
            S["pdts"] = None
        if case["seed"][-1] % 2 == 0:
            # communication dtype WIDER than the parameter dtype: buffer slots must be sized by the communication dtype
            S["cfg"]["param_dtype"] = "bfloat16"
            S["cfg"]["preconditioner_dtype"] = "float32"
            S["comm"] = "FP32" if case["seed"][-1] % 4 == 0 else "DEFAULT"
        W, G, R = S["W"], S["G"], S["W"] // S["G"]
        world = ranksim.World(W, interleave_seed=1)
        with kobs:
            results = world.run(lambda rank, w: c06.rank_program(ds, torch, S, case["seed"], rank, w, with_twin=False))
        group_of = lambda r: (r // G, 0)  # noqa
        grank = lambda r: r % G  # noqa
    else:
        S = c07.make_setup({"mode": case["mode"], "seed": case["seed"]})
        S["T"] = min(S["T"], 3)
        W, G = S["R"] * S["S"], S["G"]
        world = ranksim.World(W, interleave_seed=1)
        with kobs:
            results = world.run(lambda rank, w: c07.rank_program(ds, torch, S, case["seed"], rank, w))
        group_of = lambda r: (results[r]["rrank"] // G, results[r]["srank"])  # noqa
        grank = lambda r: results[r]["rrank"] % G  # noqa
    desc = {"mode": case["mode"], "W": W, "G": G, "shapes": S["shapes"], "comm": S["comm"]}
    if world.errors and kobs.nonfinite_from_finite and any(type(e[0]).__name__ == "PreconditionerValueError" for e in world.errors.values()):
        # LAPACK returned NaN for a finite input and the optimizer raised as documented (C13): no placement to judge
        counters["aborted_lapack_returned_nonfinite"] = 1
        return {"counters": counters, "sigs": [], "sample": None}
    if world.errors:
        world.raise_errors()
    world.check_ledger(f"live {case['mode']}")
    if len(results) != W:
        raise Inconclusive("a rank did not finish")
    groups = {}
    for r in range(W):
        groups.setdefault(group_of(r), []).append(r)
    for gid, members in groups.items():
        keys = set()
        for r in members:
            keys |= set(results[r]["placement"])
        for k in keys:
            holders = [r for r in members if any(n > 0 for n in results[r]["placement"].get(k, []))]
            sizes = {r: results[r]["placement"].get(k) for r in members}
            counters["live_blocks_placed"] += 1
            if all(not v or sum(v) == 0 for v in sizes.values()) and all((v is not None and len(v) == 0) or v is None or sum(v) == 0 for v in sizes.values()):
                # a block with no state tensors at all (0-D block without grafting/momentum/filtering): nothing to place
                if all((v is None or len(v) == 0) for v in sizes.values()):
                    continue
            if len(holders) != 1:
                raise Violation(f"state of block {k} lives on {len(holders)} ranks of group {members} (expected exactly one)", holders=holders, sizes={str(r): v for r, v in sizes.items()}, **desc)
    # the rank that holds a block's state is the rank whose segment of the gather buffer holds the block's view, and those
    # owners are a largest-first / least-loaded assignment of the (aligned) view sizes
    from ..blocking import lpt_consistent

    for gid, members in groups.items():
        geo = results[members[0]].get("buffers")
        if geo is None:
            continue
        for g in geo:
            seg = g["total"] // G if G else 0
            owners = []
            for (off, nb, _), (j, ordinal) in zip(g["views"], g.get("block_ids", [])):
                owner = off // seg if seg else 0
                owners.append(owner)
                if j is None:
                    continue
                holders = [grank(r) for r in members for (jj, k), v in results[r]["placement"].items() if jj == j and k.rsplit("block_", 1)[-1] == str(ordinal) and any(n > 0 for n in v)]
                counters["live_owner_vs_segment"] = counters.get("live_owner_vs_segment", 0) + 1
                if holders and holders != [owner]:
                    raise Violation(f"block {ordinal} of parameter {j}: its state lives on group rank(s) {holders} but its communication buffer lies in the segment of group rank {owner}", **desc)
            ok, why = lpt_consistent([(nb + 63) // 64 * 64 for _, nb, _ in g["views"]], owners, G)  # slots are 64-byte aligned in size
            if not ok:
                raise Violation(f"live assignment of blocks to buffer segments is not largest-first-to-least-loaded: {why}", **desc)
    for r in range(W):
        counters["live_buffer_views_checked"] += _check_buffers(torch, results[r].get("buffers"), S["comm"], G, grank(r), dict(desc, rank=r))
    sig = ["live", case["mode"], W, G, S["comm"]]
    return {"counters": counters, "sigs": [sig] if G >= 2 else [], "sample": {"family": "live", **{k: desc[k] for k in ("mode", "W", "G", "shapes")}}}
