"""C15 - shard-to-tensor-block recovery yields the fewest valid sub-tensors, as views.

Real code: FSDPDistributor._split_tensor_block_recovery and the HSDP copy, called directly.
Oracle: slab grammar + DP minimum (vf.blocking), storage-pointer / content checks."""
from __future__ import annotations

import itertools
import math

from ..blocking import INF, min_slabs_from, slab_dims
from ..common import Inconclusive, Violation, import_repo, rng_for

ID = "C15"
LEVEL = "exploration"
RULE = (
    "one case = one original shape with a set of (start,end) ranges (all ranges for small shapes, random for large); "
    "every (shape,start,end,copy) call is one evaluation. Non-trivial: the range needs >=2 slabs or starts/ends mid-row. "
    "Distinct by (order, numel bucket, #pieces, starts mid-row, ends mid-row, which copy)."
)
ASSUMPTIONS = [
    "shard is a 1-D CPU tensor whose length equals end-start (the routine asserts this)",
    "the shape of a returned piece may use any d allowed by the slab grammar (size-1 dims make d ambiguous)",
]
EXHAUSTIVE = {"thorough": "all shapes with dims in {1,2,3} of order 0..4, dims in {1..4} of order<=3, dims in {1,2} of order 5; every 0<=start<=end<=numel; both copies"}
TIMEOUT = {"quick": 900, "thorough": 3600}
ANCHORS = {
    "distributed_shampoo/utils/shampoo_fsdp_distributor.py": ["FSDPDistributor._split_tensor_block_recovery"],
    "distributed_shampoo/utils/shampoo_hsdp_distributor.py": ["HSDPDistributor._split_tensor_block_recovery"],
}


def _small_shapes(tier):
    shapes = []
    if tier == "thorough":
        for order in range(0, 5):
            shapes += list(itertools.product((1, 2, 3), repeat=order))
        for order in range(1, 4):
            shapes += [s for s in itertools.product((1, 2, 3, 4), repeat=order) if 4 in s]
        shapes += list(itertools.product((1, 2), repeat=5))
    else:
        for order in range(0, 4):
            shapes += list(itertools.product((1, 2, 3), repeat=order))
    return shapes


def gen_cases(tier, seed):
    rnd = rng_for(seed, ID, tier)
    cases = []
    for s in _small_shapes(tier):
        cases.append({"id": "ex_" + "x".join(map(str, s)) if s else "ex_scalar", "shape": list(s), "ranges": "all"})
    for s in rnd.sample([x for x in _small_shapes(tier) if len(x) >= 2], 20):  # strided (non-contiguous) 1-D shards are views as well
        cases.append({"id": "exstr_" + "x".join(map(str, s)), "shape": list(s), "ranges": "all", "shard_stride": 2})
    if tier == "quick":
        # stratified sample of order-4 / dims<=4 / order-5 shapes, all ranges
        pool = [s for s in itertools.product((1, 2, 3), repeat=4)] + [s for s in itertools.product((1, 2, 3, 4), repeat=3) if 4 in s] + list(itertools.product((1, 2), repeat=5))
        for s in rnd.sample(pool, 24):
            cases.append({"id": "exs_" + "x".join(map(str, s)), "shape": list(s), "ranges": "all"})
    n_rand = 120 if tier == "quick" else 1500
    for i in range(n_rand):
        order = rnd.choice([1, 2, 2, 3, 3, 4, 4, 5])
        while True:
            shape = [rnd.choice([1, 2, 3, 4, 5, 6, 7, 8, 9]) for _ in range(order)]
            if math.prod(shape) <= 20000:
                break
        n = math.prod(shape)
        rs = []
        for _ in range(12 if tier == "quick" else 30):
            kind = rnd.random()
            if kind < 0.2:  # flat-parameter style: chunk boundaries
                w = rnd.randint(1, 8)
                k = rnd.randrange(w)
                per = -(-n // w)
                a, b = min(n, k * per), min(n, (k + 1) * per)
            elif kind < 0.3:
                a = b = rnd.randint(0, n)
            else:
                a = rnd.randint(0, n)
                b = rnd.randint(a, n)
            rs.append([a, b])
        cases.append({"id": f"rnd{i}_" + "x".join(map(str, shape)), "shape": shape, "ranges": rs, "dtype": rnd.choice(["float32", "float64", "bfloat16", "int64"]), "offset": rnd.choice([0, 0, 3, 17]), "shard_stride": rnd.choice([1, 1, 1, 2, 3])})
    # rejection of non-flat shards
    cases.append({"id": "nonflat", "shape": [2, 3], "ranges": "nonflat"})
    return cases


_copies = None


def _get_copies():
    global _copies
    if _copies is None:
        import_repo()
        got = {}
        try:
            from distributed_shampoo.utils.shampoo_fsdp_distributor import FSDPDistributor

            got["fsdp"] = FSDPDistributor._split_tensor_block_recovery
        except (ImportError, AttributeError):
            pass
        try:
            from distributed_shampoo.utils.shampoo_hsdp_distributor import HSDPDistributor

            got["hsdp"] = HSDPDistributor._split_tensor_block_recovery
        except (ImportError, AttributeError):
            pass
        if not got:
            raise Inconclusive("no copy of _split_tensor_block_recovery could be attached")
        _copies = got
    return _copies


def _check_call(torch, name, fn, shape, a, b, base, offset, best_ab, sigs, counters, step=1):
    # the shard is a 1-D view of `base` with element stride `step` (FSDP hands out contiguous shards; strided ones are views too)
    shard = base[offset + a * step : offset + b * step : step] if step > 1 else base[offset + a : offset + b]
    pieces = fn(shard, torch.Size(shape), a, b)
    counters["evals"] += 1
    if not isinstance(pieces, (list, tuple)):
        raise Violation(f"{name}: result is not a list", shape=shape, start=a, end=b)
    x = a
    desc = []
    for p in pieces:
        nel = p.numel()
        y = x + nel
        desc.append((x, y, tuple(p.shape)))
        # a view of the shard at the right place: same storage, offset of element x, row-major strides scaled by the shard's stride
        want_strides = tuple(step * math.prod(p.shape[k + 1 :]) for k in range(p.dim()))
        ok_strides = all(p.shape[k] == 1 or p.stride(k) == want_strides[k] for k in range(p.dim()))
        if p.untyped_storage().data_ptr() != base.untyped_storage().data_ptr() or p.storage_offset() != base.storage_offset() + offset + (x - a) * step + a * step or not ok_strides:
            raise Violation(f"{name}: piece {len(desc) - 1} is not a view of the shard at flat offset {x - a} (copy or wrong strides)", shape=shape, start=a, end=b, pieces=desc, shard_stride=step)
        if nel == 0:
            raise Violation(f"{name}: empty piece returned", shape=shape, start=a, end=b, pieces=desc)
        # content identifies positions (base holds its own index)
        flat = p.reshape(-1)
        if int(flat[0]) != (offset + x * step) % 251 or int(flat[-1]) != (offset + (y - 1) * step) % 251:
            raise Violation(f"{name}: piece {len(desc) - 1} does not hold elements [{x},{y})", shape=shape, start=a, end=b, pieces=desc)
        ok_shapes = [shp for _, shp in slab_dims(shape, x, y)]
        if len(shape) == 0:
            ok_shapes.append(())
        if tuple(p.shape) not in ok_shapes:
            raise Violation(f"{name}: piece {len(desc) - 1} covering [{x},{y}) with shape {tuple(p.shape)} is not a slab k x shape[d+1:] inside one leading index", shape=shape, start=a, end=b, pieces=desc, allowed=ok_shapes)
        x = y
    if x != b:
        raise Violation(f"{name}: pieces cover [{a},{x}) instead of [{a},{b})", shape=shape, start=a, end=b, pieces=desc)
    if a == b and pieces:
        raise Violation(f"{name}: empty range yields pieces", shape=shape, start=a, end=b)
    if best_ab >= INF and b > a:
        raise Inconclusive(f"reference DP found no decomposition for {shape} [{a},{b})")
    if len(pieces) != (best_ab if b > a else 0):
        raise Violation(f"{name}: {len(pieces)} pieces but a valid decomposition with {best_ab} exists", shape=shape, start=a, end=b, pieces=desc, minimum=best_ab)
    if b > a:
        last = shape[-1] if shape else 1
        if len(pieces) >= 2 or a % last or b % last:
            sigs.add((len(shape), min(6, int(math.log2(max(1, math.prod(shape))))), min(len(pieces), 6), bool(a % last), bool(b % last), name))
    return desc


def run_case(case):
    import_repo()
    import torch
    copies = _get_copies()
    shape = tuple(case["shape"])
    counters = {"evals": 0, "calls_multi_piece": 0, "copies_attached": len(copies)}
    sigs = set()
    if case["ranges"] == "nonflat":
        for name, fn in copies.items():
            for bad in (torch.zeros(2, 3), torch.zeros(6, 1), torch.zeros(1, 6), torch.zeros(()), torch.zeros(1, 1), torch.zeros(1, 1, 1)):
                for orig in ((2, 3), (3,), (6,), (1,), (1, 1), (2, 1, 3)):
                    n_ = bad.numel()
                    if n_ > math.prod(orig):
                        continue
                    counters["evals"] += 1
                    try:
                        fn(bad, torch.Size(orig), 0, n_)
                    except (ValueError, AssertionError, RuntimeError, IndexError):
                        continue
                    raise Violation(f"{name}: non-flat shard of shape {tuple(bad.shape)} accepted for original shape {orig}", shape=list(orig))
        return {"counters": counters, "sigs": [("nonflat", n) for n in copies]}
    n = math.prod(shape)
    dtype = getattr(torch, case.get("dtype", "float32"))
    offset = case.get("offset", 0)
    step = case.get("shard_stride", 1)
    base = (torch.arange(n * step + offset + 5) % 251).to(dtype)
    if case["ranges"] == "all":
        by_a = {a: list(range(a, n + 1)) for a in range(n + 1)}
    else:
        by_a = {}
        for a, b in case["ranges"]:
            by_a.setdefault(a, []).append(b)
    for a, bs in by_a.items():
        best = min_slabs_from(shape, a, max(bs))
        for b in bs:
            descs = {}
            for name, fn in copies.items():
                descs[name] = _check_call(torch, name, fn, shape, a, b, base, offset, best[b - a], sigs, counters, step=step)
            if len(descs) == 2 and descs["fsdp"] != descs["hsdp"]:
                raise Violation("FSDP and HSDP copies disagree", shape=list(shape), start=a, end=b, fsdp=descs["fsdp"], hsdp=descs["hsdp"])
            if len(next(iter(descs.values()))) >= 2:
                counters["calls_multi_piece"] += 1
    return {"counters": counters, "sigs": sorted(sigs), "sample": {"shape": list(shape), "ranges": case["ranges"] if case["ranges"] == "all" else case["ranges"][:3]}}


def conclusive(agg, results, tier):
    if agg.get("calls_multi_piece", 0) < 50:
        return f"only {agg.get('calls_multi_piece', 0)} calls needed more than one piece"
    return None
