"""C16 - flatten/unflatten and OptimizerModule state round-trip losslessly.

Real code: shampoo_checkpoint_utils.flatten/unflatten, OptimizerModule.state_dict/load_state_dict.
Oracle: structural equality with key types and leaf identity, injectivity count, independent traversal of
module graphs, in-place load into a structurally equal twin."""
from __future__ import annotations

import copy
import io

from ..common import Violation, import_repo, rng_for

ID = "C16"
LEVEL = "exploration"
RULE = (
    "one case = a batch of generated structures; each structure is one evaluation. flatten family: nested dicts of depth<=6 over a hostile key "
    "alphabet (separators, quotes, brackets, '0' vs 0, huge/negative ints, unicode, lone surrogates), with and without leafless sub-dicts. "
    "module family: OptimizerModule object graphs (tensors, dicts, tuples, lists, nested modules, ignored non-tensor attributes). "
    "Non-trivial: depth>=2 and >=2 leaves. Distinct by (family, depth, leaf-count bucket, hostile-key classes present, leafless present / container kinds)."
)
ASSUMPTIONS = [
    "keys are str or int (the property's domain); bool/float keys are not generated",
    "sets of tensors inside modules are not generated (unordered containers are outside 'dicts and sequences')",
    "twin modules are structurally equal: built from the same generator state",
]
TIMEOUT = {"quick": 600, "thorough": 2400}
ANCHORS = {
    "distributed_shampoo/utils/shampoo_checkpoint_utils.py": ["flatten", "unflatten"],
    "optimizer_modules.py": ["OptimizerModule.state_dict", "OptimizerModule.load_state_dict"],
}

KEYS = ["", ".", "/", "a.b", "[", "]", '"', '["a"]', '["a", "b"]', "0", 0, 1, -1, 10**20, -(10**30), "é", "\ud800", " ", "a", "b", "\\", "null", "true", "1", "a/b", "\n", " ", "'", ",", "[]", "{}", "0.0", "-1", "\x00", "block_0", "shampoo", "factor_matrices", 2, 3]
KEY_CLASS = {}
for _k in KEYS:
    if isinstance(_k, int):
        KEY_CLASS[repr(_k)] = "int"
    elif _k in ("0", "1", "-1", "0.0"):
        KEY_CLASS[repr(_k)] = "numeric_str"
    elif any(c in _k for c in './[]"\\\',{}'):
        KEY_CLASS[repr(_k)] = "separator"
    elif _k == "" or not _k.isascii() or not _k.isprintable():
        KEY_CLASS[repr(_k)] = "exotic"
    else:
        KEY_CLASS[repr(_k)] = "plain"


def gen_cases(tier, seed):
    nb = (40, 12) if tier == "quick" else (400, 120)
    per = (250, 25) if tier == "quick" else (400, 40)
    cases = [{"id": f"flat{i}", "family": "flatten", "n": per[0], "seed": [seed, i]} for i in range(nb[0])]
    cases += [{"id": f"mod{i}", "family": "module", "n": per[1], "seed": [seed, i]} for i in range(nb[1])]
    return cases


# ---------------------------------------------------------------------------------------------- flatten
def _gen_dict(rnd, torch, depth, max_depth, leafless_ok, stats):
    d = {}
    for k in rnd.sample(KEYS, rnd.randint(1, 5)):
        r = rnd.random()
        stats["classes"].add(KEY_CLASS[repr(k)])
        if depth < max_depth and r < 0.45:
            d[k] = _gen_dict(rnd, torch, depth + 1, max_depth, leafless_ok, stats)
            stats["depth"] = max(stats["depth"], depth + 1)
        elif leafless_ok and r < 0.55:
            d[k] = {} if rnd.random() < 0.5 else {rnd.choice(KEYS): {}}
            stats["leafless"] = True
        else:
            d[k] = torch.tensor(rnd.random())
            stats["leaves"] += 1
    return d


def _leaves(d, path=()):
    for k, v in d.items():
        if isinstance(v, dict):
            yield from _leaves(v, path + ((type(k).__name__, k),))
        else:
            yield path + ((type(k).__name__, k),), v


def _prune(d):
    out = {}
    for k, v in d.items():
        if isinstance(v, dict):
            p = _prune(v)
            if p:
                out[k] = p
        else:
            out[k] = v
    return out


def _same(a, b, ordered):
    if isinstance(a, dict):
        if not isinstance(b, dict):
            return False
        ka = [(type(k), k) for k in a]
        kb = [(type(k), k) for k in b]
        if (ka != kb) if ordered else (set(ka) != set(kb) or len(ka) != len(kb)):
            return False
        return all(_same(a[k], b[k], ordered) for k in a)
    return a is b


def _flatten_batch(case, torch):
    from distributed_shampoo.utils.shampoo_checkpoint_utils import flatten, unflatten

    rnd = rng_for(*case["seed"], "flat")
    sigs, counters = set(), {"evals": 0, "leaves_checked": 0, "leafless_structs": 0}
    sample = None
    for t in range(case["n"]):
        stats = {"classes": set(), "depth": 0, "leaves": 0, "leafless": False}
        leafless_ok = t % 3 == 2
        d = _gen_dict(rnd, torch, 0, rnd.randint(0, 5), leafless_ok, stats)
        f = flatten(d)
        counters["evals"] += 1
        L = list(_leaves(d))
        counters["leaves_checked"] += len(L)
        desc = {"structure": repr(d)[:400]}
        if not all(isinstance(k, str) for k in f):
            raise Violation("flatten produced a non-string flat key", **desc)
        if len(f) != len(L):
            raise Violation(f"flatten is not injective: {len(L)} distinct key paths map to {len(f)} flat keys", **desc)
        ids_in = sorted(id(v) for _, v in L)
        if sorted(id(v) for v in f.values()) != ids_in:
            raise Violation("flatten lost or replaced tensor objects", **desc)
        u = unflatten(f)
        exp = _prune(d)
        if stats["leafless"]:
            counters["leafless_structs"] += 1
        # full nesting, key types and leaf identity; key order is preserved for dicts without pruned parts
        if not _same(exp, u, ordered=False):
            raise Violation("unflatten(flatten(d)) differs from d (nesting, key types or tensor identity)", got=repr(u)[:400], **desc)
        # the save path: flat dict survives torch.save/torch.load with the same keys
        if t % 50 == 0:
            buf = io.BytesIO()
            torch.save(f, buf)
            buf.seek(0)
            f2 = torch.load(buf, weights_only=False)
            if list(f2.keys()) != list(f.keys()) or not all(torch.equal(f2[k], f[k]) for k in f):
                raise Violation("flat dict does not survive torch.save/torch.load", **desc)
            if not _same_values(exp, unflatten(f2)):
                raise Violation("unflatten after save/load differs from the original nesting", **desc)
        if stats["depth"] >= 2 and stats["leaves"] >= 2:
            sigs.add(("flatten", stats["depth"], min(stats["leaves"].bit_length(), 5), tuple(sorted(stats["classes"])), stats["leafless"]))
        if sample is None and stats["depth"] >= 2:
            sample = {"family": "flatten", "structure": repr(d)[:600], "flat_keys": list(f.keys())[:8]}
    return {"counters": counters, "sigs": sorted(sigs), "sample": sample}


def _same_values(a, b):
    import torch

    if isinstance(a, dict):
        return isinstance(b, dict) and {(type(k), k) for k in a} == {(type(k), k) for k in b} and all(_same_values(a[k], b[k]) for k in a)
    return torch.equal(a, b)


# ---------------------------------------------------------------------------------------------- modules
ATTRS = ["t", "a.b", "0", "x y", "factor_matrices", "_private", "d", "lst", "é", '"q"', "child", "n", "[0]"]


def _rand_tensor(rnd, torch):
    kind = rnd.random()
    shape = rnd.choice([(), (1,), (3,), (2, 2), (0,), (2, 0, 3), (4, 1)])
    if kind < 0.6:
        return torch.full(shape, rnd.random())
    if kind < 0.7:
        return torch.full(shape, rnd.randint(-5, 5), dtype=torch.int64)
    if kind < 0.8:
        return torch.full(shape, rnd.random() < 0.5, dtype=torch.bool)
    if kind < 0.9:
        return torch.full(shape, rnd.random(), dtype=torch.bfloat16)
    return torch.full(shape, rnd.random(), dtype=torch.float64).requires_grad_(rnd.random() < 0.5)


def _gen_value(rnd, torch, OM, depth, kinds):
    r = rnd.random()
    if r < 0.35 or depth >= 4:
        kinds.add("tensor")
        return _rand_tensor(rnd, torch)
    if r < 0.5:
        kinds.add("dict")
        return {k: _gen_value(rnd, torch, OM, depth + 1, kinds) for k in rnd.sample(KEYS[:24], rnd.randint(0, 3))}
    if r < 0.62:
        kinds.add("tuple")
        return tuple(_gen_value(rnd, torch, OM, depth + 1, kinds) for _ in range(rnd.randint(0, 3)))
    if r < 0.74:
        kinds.add("list")
        return [_gen_value(rnd, torch, OM, depth + 1, kinds) for _ in range(rnd.randint(0, 3))]
    if r < 0.86:
        kinds.add("module")
        return _gen_module(rnd, torch, OM, depth + 1, kinds)
    kinds.add("non_tensor")
    return rnd.choice([3, "s", None, 2.5, True, b"x"])


def _gen_module(rnd, torch, OM, depth, kinds):
    class M(OM):
        pass

    m = M()
    names = rnd.sample(ATTRS, rnd.randint(1, 6))
    for name in names:
        m.__dict__[name] = _gen_value(rnd, torch, OM, depth, kinds)
    # DAG-shaped graphs: the same container / tensor object referenced from two places of one module
    if len(names) >= 2 and rnd.random() < 0.3:
        src = m.__dict__[names[0]]
        if not isinstance(src, (int, float, str, bytes, bool, type(None))):
            m.__dict__[names[1]] = src if rnd.random() < 0.5 else [src, _rand_tensor(rnd, torch)]
            kinds.add("shared_reference")
    return m


def _tensors(o, OM, torch):
    if isinstance(o, torch.Tensor):
        yield o
    elif isinstance(o, OM):
        for v in o.__dict__.values():
            yield from _tensors(v, OM, torch)
    elif isinstance(o, dict):
        for v in o.values():
            yield from _tensors(v, OM, torch)
    elif isinstance(o, (list, tuple)):
        for v in o:
            yield from _tensors(v, OM, torch)


def _sd_leaves(d, torch):
    for v in d.values():
        if isinstance(v, dict):
            yield from _sd_leaves(v, torch)
        elif isinstance(v, torch.Tensor):
            yield v


def _key(t):
    return (t.untyped_storage().data_ptr(), t.storage_offset(), tuple(t.shape), str(t.dtype))


def _perturb(t, torch):
    with torch.no_grad():
        if t.numel() == 0:
            return
        if t.dtype == torch.bool:
            t.logical_not_()
        else:
            t.add_(1)


def _module_batch(case, torch):
    from distributed_shampoo.utils.shampoo_checkpoint_utils import flatten, unflatten
    from optimizer_modules import OptimizerModule as OM

    rnd = rng_for(*case["seed"], "mod")
    sigs, counters = set(), {"evals": 0, "module_tensors_checked": 0}
    sample = None
    for t in range(case["n"]):
        st = rnd.getstate()
        kinds_a, kinds_b = set(), set()
        a = _gen_module(rnd, torch, OM, 0, kinds_a)
        rnd.setstate(st)
        b = _gen_module(rnd, torch, OM, 0, kinds_b)
        ta, tb = list(_tensors(a, OM, torch)), list(_tensors(b, OM, torch))
        counters["evals"] += 1
        counters["module_tensors_checked"] += len(ta)
        desc = {"kinds": sorted(kinds_a), "n_tensors": len(ta)}
        # (1) state dict contains every reachable tensor
        snt = t % 5 == 4  # also with non-tensor storage switched on (same tensors must be present, loads must still work)
        sd_keep = a.state_dict(keep_vars=True, store_non_tensors=snt)
        if sorted(id(x) for x in _sd_leaves(sd_keep, torch)) != sorted(id(x) for x in ta):
            raise Violation("state_dict(keep_vars=True) does not hold exactly the reachable tensor objects", **desc)
        sd = a.state_dict(store_non_tensors=snt)
        if sorted(_key(x) for x in _sd_leaves(sd, torch)) != sorted(_key(x) for x in ta):
            raise Violation("state_dict() misses (or duplicates) a reachable tensor", **desc)
        if any(x.requires_grad for x in _sd_leaves(sd, torch)):
            raise Violation("state_dict() returned a tensor attached to autograd", **desc)
        # (2) load into a structurally equal twin, in place; via the checkpoint path on every other structure
        for x in tb:
            _perturb(x, torch)
        ids = [(id(x), x.untyped_storage().data_ptr() if x.numel() else 0) for x in tb]
        payload = copy.deepcopy(sd)
        if t % 2:
            payload = unflatten(flatten(payload))
        b.load_state_dict(payload, store_non_tensors=snt)
        tb2 = list(_tensors(b, OM, torch))
        if [(id(x), x.untyped_storage().data_ptr() if x.numel() else 0) for x in tb2] != ids:
            raise Violation("load_state_dict replaced tensor objects instead of copying in place", **desc)
        for x, y in zip(ta, tb2):
            if x.shape != y.shape or x.dtype != y.dtype or not torch.equal(x.detach(), y.detach()):
                raise Violation("after load_state_dict a tensor of the twin differs from the source", src=repr(x)[:100], dst=repr(y)[:100], via_flatten=bool(t % 2), **desc)
        if len(ta) >= 2 and len(kinds_a) >= 2:
            sigs.add(("module", tuple(sorted(kinds_a)), min(len(ta).bit_length(), 5), bool(t % 2), snt))
        if sample is None and len(ta) >= 3:
            sample = {"family": "module", "kinds": sorted(kinds_a), "n_tensors": len(ta), "state_dict_keys": repr(sd)[:300]}
    return {"counters": counters, "sigs": sorted(sigs), "sample": sample}


def run_case(case):
    import_repo()
    import torch

    if case["family"] == "flatten":
        return _flatten_batch(case, torch)
    return _module_batch(case, torch)


def conclusive(agg, results, tier):
    if agg.get("leaves_checked", 0) < 1000 or agg.get("module_tensors_checked", 0) < 500 or agg.get("leafless_structs", 0) < 50:
        return f"too few leaves / module tensors / leafless structures observed: {agg}"
    return None
