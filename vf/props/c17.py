"""C17 - the constructor accepts exactly the documented hyperparameter domain.

Real code: DistributedShampoo.__init__ and the config dataclasses' __post_init__.
Oracle: an independent predicate transcribed from the property text, expected exception class, resolved defaults."""
from __future__ import annotations

import itertools
import math

from ..common import Violation, import_repo

ID = "C17"
LEVEL = "exploration"
RULE = (
    "grid of boundary / interior / just-outside / NaN values per hyperparameter, varied one and two at a time around three valid baselines; "
    "one case = (baseline, pair of hyperparameters) with every value combination, each construction is one evaluation. Plus grafting-config and "
    "unsupported-config-type cases. Non-trivial: at least one varied value lies on or outside a boundary. Distinct by (baseline, names, values)."
)
ASSUMPTIONS = [
    "per-group overrides passed inside param-group dicts are not validated by the constructor and are not part of the property",
    "infinite values are not generated (lr=inf satisfies lr>=0 literally)",
    "combinations that are both an unsupported config type and an out-of-range value are not generated (two documented exception classes would compete)",
]
EXHAUSTIVE = {"quick": "the stated one-/two-at-a-time boundary grid around 3 baselines", "thorough": "the stated one-/two-at-a-time boundary grid around 3 baselines plus all triples for baseline 0"}
TIMEOUT = {"quick": 600, "thorough": 1800}
ANCHORS = {"distributed_shampoo/distributed_shampoo.py": ["DistributedShampoo.__init__"]}

nan = float("nan")
e = 1e-9
GRID = dict(
    lr=[-e, 0.0, 0.01, nan],
    beta1=[-e, 0.0, 0.5, 1 - e, 1.0, nan],
    beta2=[0.0, e, 0.5, 1.0, 1 + e, -e, nan],
    beta3=[-1.0, -e, 0.0, 0.5, 1 - e, 1.0, nan, -1, -1 - e, math.nextafter(-1.0, 0.0), math.nextafter(-1.0, -2.0), -1 + 1e-12, -1 - 1e-12, -0.999],
    epsilon=[0.0, -e, 1e-300, 5e-324, 1e-50, 1e-12, nan],
    momentum=[-e, 0.0, 0.5, 1 - e, 1.0, nan],
    dampening=[-e, 0.0, 0.5, 1 - e, 1.0, nan],
    weight_decay=[-e, 0.0, 0.1, nan],
    max_preconditioner_dim=[0, 1, 2, 1024, -1],
    precondition_frequency=[0, 1, 2, 5, -1],
    start_preconditioning_step=[-2, -1, 0, 1, 2, 4, 5, 6, 10**6, -1.0],
    inv_root_override=[-1, 0, 1, 4, [0, 1], [2, -1], [], (3, 0, 2), (-1,)],
    ignored_dims=[[], [0], [0, 1], [5]],
)
BASES = [
    dict(lr=0.01, beta1=0.9, beta2=0.99, beta3=-1.0, epsilon=1e-12, momentum=0.5, dampening=0.1, weight_decay=0.01, max_preconditioner_dim=4, precondition_frequency=2, start_preconditioning_step=-1, inv_root_override=0, ignored_dims=[]),
    dict(lr=0.0, beta1=0.0, beta2=1.0, beta3=0.3, epsilon=1e-6, momentum=0.0, dampening=0.0, weight_decay=0.0, max_preconditioner_dim=1, precondition_frequency=1, start_preconditioning_step=1, inv_root_override=[2, 1], ignored_dims=[]),
    dict(lr=1.0, beta1=0.5, beta2=0.5, beta3=0.0, epsilon=1.0, momentum=0.9, dampening=0.9, weight_decay=1.0, max_preconditioner_dim=1024, precondition_frequency=5, start_preconditioning_step=5, inv_root_override=0, ignored_dims=[1]),
]


def _isnan(x):
    return isinstance(x, float) and math.isnan(x)


def valid(c):
    """the documented domain (property text), independent of the code"""
    ok = (not _isnan(c["lr"])) and c["lr"] >= 0
    ok &= (not _isnan(c["beta1"])) and 0 <= c["beta1"] < 1
    ok &= (not _isnan(c["beta2"])) and 0 < c["beta2"] <= 1
    ok &= (c["beta3"] == -1) or ((not _isnan(c["beta3"])) and 0 <= c["beta3"] < 1)
    ok &= (not _isnan(c["epsilon"])) and c["epsilon"] > 0
    ok &= (not _isnan(c["momentum"])) and 0 <= c["momentum"] < 1
    ok &= (not _isnan(c["dampening"])) and 0 <= c["dampening"] < 1
    ok &= (not _isnan(c["weight_decay"])) and c["weight_decay"] >= 0
    ok &= c["max_preconditioner_dim"] >= 1
    ok &= c["precondition_frequency"] >= 1
    st = c["start_preconditioning_step"]
    ok &= (st == -1) or (st >= c["precondition_frequency"] and st >= 0)
    o = c["inv_root_override"]
    ok &= all(x >= 0 for x in o) if isinstance(o, (list, tuple)) else o >= 0
    # ignored dims only with the default override
    if c["ignored_dims"]:
        ok &= (not isinstance(o, (list, tuple))) and o == 0
    return bool(ok)


def on_boundary(name, v):
    interior = {"lr": [0.01], "beta1": [0.5], "beta2": [0.5], "beta3": [0.5], "epsilon": [1e-12], "momentum": [0.5], "dampening": [0.5], "weight_decay": [0.1], "max_preconditioner_dim": [2, 1024], "precondition_frequency": [2, 5], "start_preconditioning_step": [10**6], "inv_root_override": [4], "ignored_dims": [[]]}
    return v not in interior[name]


def gen_cases(tier, seed):
    names = list(GRID)
    cases = []
    for bi in range(len(BASES)):
        for a, b in itertools.combinations_with_replacement(names, 2):
            cases.append({"id": f"b{bi}_{a}_{b}", "kind": "grid", "base": bi, "names": [a] if a == b else [a, b]})
    if tier == "thorough":
        for tri in itertools.combinations(names, 3):
            cases.append({"id": "b0_" + "_".join(tri), "kind": "grid", "base": 0, "names": list(tri)})
    cases.append({"id": "grafting", "kind": "grafting"})
    cases.append({"id": "unsupported", "kind": "unsupported"})
    return cases


def _build(ds, torch, c, **extra):
    p = torch.nn.Parameter(torch.zeros(2, 2))
    pc = ds.ShampooPreconditionerConfig(ignored_dims=list(c["ignored_dims"])) if c["ignored_dims"] else ds.DefaultShampooConfig
    kw = dict(lr=c["lr"], betas=(c["beta1"], c["beta2"]), beta3=c["beta3"], epsilon=c["epsilon"], momentum=c["momentum"], dampening=c["dampening"], weight_decay=c["weight_decay"], max_preconditioner_dim=c["max_preconditioner_dim"], precondition_frequency=c["precondition_frequency"], start_preconditioning_step=c["start_preconditioning_step"], inv_root_override=c["inv_root_override"], preconditioner_config=pc)
    kw.update(extra)
    return ds.DistributedShampoo([p], **kw)


def _try(fn):
    try:
        return True, fn()
    except ValueError as ex:
        return "ValueError", ex
    except NotImplementedError as ex:
        return "NotImplementedError", ex
    except Exception as ex:  # noqa
        return type(ex).__name__, ex


def run_case(case):
    ds = import_repo()
    import torch

    counters = {"evals": 0, "accepted": 0, "rejected": 0, "defaults_checked": 0}
    sigs = []
    if case["kind"] == "grid":
        base = BASES[case["base"]]
        names = case["names"]
        for vals in itertools.product(*(GRID[n] for n in names)):
            c = dict(base)
            for n, v in zip(names, vals):
                c[n] = v
            exp = valid(c)
            got, obj = _try(lambda: _build(ds, torch, c))
            counters["evals"] += 1
            desc = {"config": {k: repr(v) for k, v in c.items()}, "varied": names}
            if exp and got is not True:
                raise Violation(f"in-domain combination rejected with {got}: {obj}", **desc)
            if not exp and got is True:
                raise Violation("out-of-domain combination accepted", **desc)
            if not exp and got != "ValueError":
                raise Violation(f"out-of-domain combination raised {got} instead of ValueError: {obj}", **desc)
            if got is True:
                counters["accepted"] += 1
                g = obj.param_groups[0]
                if c["beta3"] == -1:
                    counters["defaults_checked"] += 1
                    if g["beta3"] != c["beta1"]:
                        raise Violation(f"beta3=-1 not replaced by beta1: {g['beta3']}", **desc)
                elif g["beta3"] != c["beta3"]:
                    raise Violation(f"explicit beta3 changed to {g['beta3']}", **desc)
                if c["start_preconditioning_step"] == -1:
                    counters["defaults_checked"] += 1
                    if g["start_preconditioning_step"] != c["precondition_frequency"]:
                        raise Violation(f"start_preconditioning_step=-1 not replaced by precondition_frequency: {g['start_preconditioning_step']}", **desc)
                elif g["start_preconditioning_step"] != c["start_preconditioning_step"]:
                    raise Violation(f"explicit start step changed to {g['start_preconditioning_step']}", **desc)
            else:
                counters["rejected"] += 1
            if any(on_boundary(n, v) for n, v in zip(names, vals)):
                sigs.append(repr((case["base"], names, [repr(v) for v in vals])))
        return {"counters": counters, "sigs": sigs, "sample": {"base": base, "varied": names, "values": [[repr(v) for v in GRID[n]] for n in names]}}

    if case["kind"] == "grafting":
        base = BASES[0]
        for cls_name, fields in (("AdaGradGraftingConfig", ["epsilon"]), ("RMSpropGraftingConfig", ["epsilon", "beta2"]), ("AdamGraftingConfig", ["epsilon", "beta2"])):
            cls = getattr(ds, cls_name)
            eps_vals = [0.0, -e, 1e-300, 1e-10, 1.0, nan]
            b2_vals = [0.0, -e, e, 0.5, 1.0, 1 + e, nan] if "beta2" in fields else [None]
            for ev, bv in itertools.product(eps_vals, b2_vals):
                exp = (not _isnan(ev)) and ev > 0 and (bv is None or ((not _isnan(bv)) and 0 < bv <= 1))
                kw = {"epsilon": ev}
                if bv is not None:
                    kw["beta2"] = bv
                got, obj = _try(lambda: _build(ds, torch, base, grafting_config=cls(**kw)))
                counters["evals"] += 1
                desc = {"grafting": cls_name, "kwargs": {k: repr(v) for k, v in kw.items()}}
                if exp and got is not True:
                    raise Violation(f"valid grafting config rejected with {got}: {obj}", **desc)
                if not exp and got != "ValueError":
                    raise Violation(f"invalid grafting config gave {got} instead of ValueError", **desc)
                counters["accepted" if got is True else "rejected"] += 1
                sigs.append(repr((cls_name, repr(ev), repr(bv))))
        got, obj = _try(lambda: _build(ds, torch, base, grafting_config=ds.SGDGraftingConfig()))
        counters["evals"] += 1
        if got is not True:
            raise Violation(f"SGD grafting rejected: {got}")
        got, obj = _try(lambda: _build(ds, torch, base, grafting_config=None))
        counters["evals"] += 1
        if got is not True:
            raise Violation(f"no grafting rejected: {got}")
        return {"counters": counters, "sigs": sigs}

    # unsupported config types -> NotImplementedError
    from dataclasses import dataclass

    from distributed_shampoo import shampoo_types as st
    from matrix_functions_types import DefaultEigenConfig

    base = BASES[0]

    @dataclass
    class MyGrafting(st.GraftingConfig):
        pass

    @dataclass
    class MyGrafting2(st.AdamGraftingConfig):
        pass

    @dataclass(kw_only=True)
    class MyPrecond(st.PreconditionerConfig):
        amortized_computation_config: object = None

    @dataclass(kw_only=True)
    class MyPrecond2(st.ShampooPreconditionerConfig):
        pass

    @dataclass
    class MyDist(st.DistributedConfig):
        pass

    # subclasses of the concrete distributed configs are unsupported types too (the constructor dispatches on the exact type;
    # the refusal happens before any distributor / process group is touched)
    dist_trials = {}
    for cname in ("DDPShampooConfig", "FSDPShampooConfig", "HSDPShampooConfig", "FullyShardShampooConfig"):
        cls = getattr(st, cname, None)
        if cls is None:
            continue
        sub = type("My" + cname, (cls,), {})
        try:
            obj_ = sub() if cname in ("DDPShampooConfig", "FullyShardShampooConfig") else sub(param_to_metadata={}) if cname == "FSDPShampooConfig" else None
        except Exception:  # noqa  (a config that cannot be built without a mesh is simply not tried)
            obj_ = None
        if obj_ is not None:
            dist_trials["distributed_subclass_of_" + cname] = dict(distributed_config=obj_)

    trials = {
        **dist_trials,
        "grafting_subclass_of_base": dict(grafting_config=MyGrafting()),
        "grafting_subclass_of_adam": dict(grafting_config=MyGrafting2()),
        "preconditioner_subclass_of_base": dict(preconditioner_config=MyPrecond(amortized_computation_config=DefaultEigenConfig)),
        "preconditioner_subclass_of_shampoo": dict(preconditioner_config=MyPrecond2()),
        "distributed_unknown": dict(distributed_config=MyDist()),
    }
    c = dict(base)
    for name, extra in trials.items():
        got, obj = _try(lambda: _build(ds, torch, c, **extra))
        counters["evals"] += 1
        if got != "NotImplementedError":
            raise Violation(f"unsupported config type ({name}) gave {got} instead of NotImplementedError: {obj}", trial=name)
        counters["rejected"] += 1
        sigs.append(name)
    # the supported ones are accepted
    for name, extra in {"shampoo": dict(preconditioner_config=ds.ShampooPreconditionerConfig()), "soap_eigh": dict(preconditioner_config=ds.DefaultEigenvalueCorrectedShampooConfig), "soap_qr": dict(preconditioner_config=ds.DefaultSOAPConfig)}.items():
        got, obj = _try(lambda: _build(ds, torch, c, **extra))
        counters["evals"] += 1
        if got is not True:
            raise Violation(f"supported preconditioner config {name} rejected with {got}: {obj}")
        counters["accepted"] += 1
    return {"counters": counters, "sigs": sigs}


def conclusive(agg, results, tier):
    if agg.get("accepted", 0) < 200 or agg.get("rejected", 0) < 200 or agg.get("defaults_checked", 0) < 50:
        return f"too few accepted/rejected/default observations: {agg}"
    return None
