"""C18 - a PT2-compiled step computes the same update as the eager step.

Real code: DistributedShampoo with ShampooPT2CompileConfig(backend in {eager, aot_eager}, static/dynamic/auto shapes) next to an
uncompiled twin fed identical inputs.
Oracle: differential after every step - parameters and every state tensor (independent traversal of optimizer.state), bitwise
first, float64 tolerance otherwise; recompilations observed through torch._dynamo counters (0 compiled graphs => trivial)."""
from __future__ import annotations

from ..common import Inconclusive, Violation, import_repo, rng_for, sha, tgen

ID = "C18"
LEVEL = "exploration"
RULE = (
    "one case = one optimizer configuration (decay modes, filtering with beta3, grafting types, momentum/Nesterov/dampening, bias correction, Shampoo eigen / SOAP "
    "eigh+QR, blocked parameters) x backend in {eager, aot_eager} x shape mode in {static, dynamic, auto}; 8-12 steps crossing the warm-up switch with >=2 refreshes "
    "and <=5 gradient-presence changes (forcing recompilation), 0-3 lr / weight-decay / momentum edits in param_groups between steps; every compared step is one evaluation. Non-trivial: dynamo compiled >=1 graph and >=1 presence change. "
    "Distinct by (backend, shape mode, precond, grafting, decay mode, momentum flags, beta1>0, beta3!=beta1, dtype)."
)
ASSUMPTIONS = [
    "backends that preserve eager numerics only: 'eager' and 'aot_eager' (inductor / CUDA graphs are not available on this CPU sandbox)",
    "if a step is not bit-identical, agreement within 1e-6 relative (float32-scalar floor) of the per-step update is accepted and counted",
]
TIMEOUT = {"quick": 1800, "thorough": 7200}
SHARDS_PER_WORKER = {"quick": 1, "thorough": 4}


def gen_cases(tier, seed):
    n = 60 if tier == "quick" else 400
    cases = []
    for i in range(n):
        cases.append({"id": f"cfg{i}", "backend": ["eager", "aot_eager"][i % 2], "dynamic": [False, True, None][(i // 2) % 3], "seed": [seed, i]})
    return cases


def run_case(case):
    ds = import_repo()
    import torch
    import torch._dynamo
    from optimizer_modules import OptimizerModule as OM

    from .. import gen as G
    from .c09 import walk_state

    torch._dynamo.reset()
    from torch._dynamo.utils import counters as dyn_counters

    dyn_counters.clear()
    rnd = rng_for(*case["seed"], "c18")
    gs = 1.0
    pair = rnd.choice([("float64", "float64"), ("float64", "float64"), ("float32", "float32")])
    cfg = G.rand_config(rnd, grad_scale=gs, allow_iterative=False, dtype_pair=pair, well_conditioned=True, max_dim_choices=(3, 4, 1024))
    if case["seed"][-1] % 5 == 0:
        # class in which the search direction aliases optimizer state unless it is copied (no bias correction, beta3 == beta1,
        # identity grafting preconditioner during the warm-up)
        cfg.update(use_bias_correction=False, beta3=-1.0, grafting={"type": "sgd"})
        cfg["betas"][0] = 0.9
    cfg["precondition_frequency"] = rnd.choice([1, 2, 3])
    cfg["start_preconditioning_step"] = rnd.choice([cfg["precondition_frequency"], cfg["precondition_frequency"] + 1, 4])
    if cfg["start_preconditioning_step"] < cfg["precondition_frequency"]:
        cfg["start_preconditioning_step"] = cfg["precondition_frequency"]
    shapes = G.rand_shapes(rnd, n_params=rnd.randint(2, 3), max_order=3, max_numel=120)
    if case["seed"][-1] % 4 == 1:
        # a group of square 2-D blocks only (nothing forces a graph break), optionally with an ignored dimension
        k_ = rnd.choice([2, 3, 4])
        shapes = [[k_, k_] for _ in range(rnd.randint(2, 3))]
        cfg["max_preconditioner_dim"] = 1024
        cfg["use_merge_dims"] = False  # keep the blocks 2-D
        cfg["inv_root_override"] = 0
        cfg["precond"]["ignored_dims"] = rnd.choice([[0], [0], [1], []])
    if case["dynamic"] is not False:
        # torch limits the number of mutated graph inputs that alias one storage under dynamic shapes (5): keep blocks per parameter small
        while max(G.n_blocks(sh, cfg["max_preconditioner_dim"], cfg["use_merge_dims"]) for sh in shapes) > 4:
            cfg["max_preconditioner_dim"] = {3: 4, 4: 1024, 1024: 1024}[cfg["max_preconditioner_dim"]]
            if cfg["max_preconditioner_dim"] == 1024:
                break
    T = rnd.randint(8, 12)
    # <= 5 presence changes
    pres = [[True] * len(shapes) for _ in range(T)]
    for _ in range(rnd.randint(1, 2)):
        j = rnd.randrange(len(shapes))
        a = rnd.randrange(1, T - 1)
        for t in range(a, min(T, a + rnd.randint(1, 2))):
            pres[t][j] = False
    changes = sum(1 for a, b in zip(pres, pres[1:]) if a != b)
    dt = getattr(torch, cfg["param_dtype"])
    init = G.make_params(torch, shapes, dt, tgen(*case["seed"], "init"))
    A = [torch.nn.Parameter(p.detach().clone()) for p in init]
    B = [torch.nn.Parameter(p.detach().clone()) for p in init]
    optA = G.build_optimizer(ds, torch, cfg, A)
    optB = G.build_optimizer(ds, torch, cfg, B, shampoo_pt2_compile_config=ds.ShampooPT2CompileConfig(pytorch_compile_backend=case["backend"], enable_shampoo_pt2_dynamic_shape=case["dynamic"]))
    gg = tgen(*case["seed"], "grads")
    counters = {"evals": 0, "steps_bitwise": 0, "steps_within_tolerance": 0, "tensors_compared": 0, "presence_changes": changes}
    desc = {"backend": case["backend"], "dynamic": case["dynamic"], "cfg": cfg, "shapes": shapes, "presence": pres}
    # scheduler edits of param_groups between steps (python scalars the compiled graph was specialised on, and the lr tensor), applied
    # to both twins; own stream so the other draws stay as they were
    rnd_e = rng_for(*case["seed"], "c18edits")
    edits = []
    for _ in range(rnd_e.choice([0, 1, 2, 3])):
        key = rnd_e.choice(["lr", "lr", "weight_decay", "momentum"])
        if (key == "momentum" and cfg["momentum"] == 0.0) or (key == "weight_decay" and cfg["weight_decay"] == 0.0):
            continue
        val = {"lr": rnd_e.choice([0.5, 2.0, 0.0]) * cfg["lr"], "weight_decay": rnd_e.choice([0.0, 0.5, 2.0]) * cfg["weight_decay"], "momentum": rnd_e.choice([0.4, 0.7])}[key]
        edits.append([rnd_e.randrange(1, T), key, val])
    desc["edits"] = edits
    reuse_steps = set(rnd.sample(range(1, T), rnd.choice([0, 1, 2])))  # step() called again on the gradient tensors left by the previous step
    for t in range(T):
        for j in range(len(shapes)):
            if t in reuse_steps and pres[t][j] and pres[t - 1][j]:
                counters["reused_gradient_steps"] = counters.get("reused_gradient_steps", 0) + 1
                continue  # same .grad objects as after the previous step, on both twins
            g = G.grad_for(torch, gg, shapes[j], dt, "dense", gs * (1 + j)) if pres[t][j] else None
            A[j].grad = None if g is None else g.clone()
            B[j].grad = None if g is None else g.clone()
        for e in edits:
            if e[0] == t:
                optA.param_groups[0][e[1]] = e[2]
                optB.param_groups[0][e[1]] = e[2]
                counters["schedule_edits_applied"] = counters.get("schedule_edits_applied", 0) + 1
        before = [p.detach().clone() for p in A]
        optA.step()
        try:
            optB.step()
        except Exception as e:  # noqa
            if type(e).__module__.startswith("torch._dynamo"):  # torch's compiler refused the graph (e.g. aliasing limit under dynamic shapes)
                counters["compiler_rejected_graph"] = 1
                counters["compiler_rejection_" + type(e).__name__] = 1
                return {"counters": counters, "sigs": [], "sample": {"backend": case["backend"], "dynamic": case["dynamic"], "compiler_rejected": str(e)[:200]}}
            raise
        counters["evals"] += 1
        bitwise = True
        for j, (p, q) in enumerate(zip(A, B)):
            ta = [(("param",), p.detach())] + list(walk_state(optA.state[p], torch, OM))
            tb = [(("param",), q.detach())] + list(walk_state(optB.state[q], torch, OM))
            if (p.grad is None) != (q.grad is None):
                raise Violation(f"step {t + 1}: gradient presence of parameter {j} differs after the step", step=t + 1, **desc)
            if p.grad is not None:
                ta.append((("grad_after_step",), p.grad.detach()))
                tb.append((("grad_after_step",), q.grad.detach()))
            if [x for x, _ in ta] != [x for x, _ in tb]:
                raise Violation(f"step {t + 1}: compiled optimizer holds a different set of state tensors for parameter {j}", step=t + 1, **desc)
            for (path, x), (_, y) in zip(ta, tb):
                counters["tensors_compared"] += 1
                if sha(x) == sha(y):
                    continue
                bitwise = False
                counters["nonbitwise_" + str(path[-2] if len(path) > 1 and isinstance(path[-1], int) else path[-1])] = counters.get("nonbitwise_" + str(path[-2] if len(path) > 1 and isinstance(path[-1], int) else path[-1]), 0) + 1
                xd, yd = x.detach().to(torch.float64), y.detach().to(torch.float64)
                scale = xd.abs() + (xd.abs().pow(2).mean().sqrt() if xd.numel() else 0.0)
                if path == ("param",):
                    upd = (xd - before[j].to(torch.float64)).abs()
                    scale = upd + (upd.pow(2).mean().sqrt() if upd.numel() else 0.0) + 1e-9 * xd.abs()
                # a few ulps, measured against the size of the tensor (results of rotations / mode products carry errors relative
                # to the norm of the operands, not to each entry)
                ulp = 8 * float(torch.finfo(x.dtype).eps) if x.dtype.is_floating_point else 0.0
                rms = xd.pow(2).mean().sqrt() if xd.numel() else 0.0
                r = float(((xd - yd).abs() / (1e-6 * scale + ulp * (xd.abs() + rms) + 1e-300)).max()) if xd.numel() else 0.0
                if not r <= 1.0:
                    raise Violation(f"step {t + 1}: {'/'.join(map(str, path))} of parameter {j} differs between the compiled and the eager optimizer (deviation/tolerance {r:.3g})", step=t + 1, param=j, tensor=[str(s) for s in path], eager=[float(v) for v in xd.flatten()[:4]], compiled=[float(v) for v in yd.flatten()[:4]], **desc)
        counters["steps_bitwise" if bitwise else "steps_within_tolerance"] += 1
    graphs = int(dict(dyn_counters["stats"]).get("unique_graphs", 0))
    counters["compiled_graphs"] = graphs
    counters["cases_without_compiled_graph"] = int(graphs == 0)
    sig = [case["backend"], str(case["dynamic"]), cfg["precond"]["kind"], cfg["precond"]["solver"]["type"], (cfg["grafting"] or {}).get("type", "none"), cfg["weight_decay"] > 0, cfg["use_decoupled_weight_decay"], cfg["momentum"] > 0, cfg["use_nesterov"], cfg["betas"][0] > 0, cfg["beta3"] not in (-1.0, cfg["betas"][0]), cfg["param_dtype"]]
    return {"counters": counters, "sigs": [sig] if graphs > 0 and changes > 0 else [], "sample": {"backend": case["backend"], "dynamic": case["dynamic"], "cfg": cfg, "shapes": shapes, "compiled_graphs": graphs, "presence_changes": changes}}


def conclusive(agg, results, tier):
    if agg.get("compiled_graphs", 0) < 20:
        return f"dynamo compiled only {agg.get('compiled_graphs', 0)} graphs: the compiled path was hardly exercised"
    if agg.get("compiler_rejected_graph", 0) > 0.3 * len(results):
        return f"torch's compiler rejected {agg.get('compiler_rejected_graph')} of {len(results)} configurations"
    if agg.get("evals", 0) < 100:
        return "too few steps compared"
    return None
