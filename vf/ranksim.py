"""E5: rank simulator with collective ledger (DESIGN 2).

Ranks are threads running the real distributor / optimizer code on torch's in-process "threaded" process group (real DeviceMesh,
real DTensor).  Every new_group / all_gather_into_tensor call of every rank passes through ledger wrappers that record the call
BEFORE invoking and the return AFTER; a harness barrier models the per-iteration gradient all-reduce of data-parallel training.
A logical deadlock detector (no timing involved) fires when no rank can make progress while some rank waits for a collective
that cannot complete.  Interleavings are diversified by seeded sleeps at the wrappers and randomised thread start order."""
from __future__ import annotations

import random
import threading
import time
import traceback

from .common import Inconclusive, Violation

_installed = False
_lock = threading.RLock()
_tls = threading.local()
_world = None  # the world currently running (one at a time per process)


_warm = False


def _warm_up():
    """Once per process, before any rank thread exists: take one serial optimizer step per dtype in the main thread, so that
    every lazily initialised piece of the numeric stack (kernel dispatch, BLAS / LAPACK / vector-math library set-up) is
    initialised single-threaded.  Rank threads stand in for processes, and a process never shares such initialisation."""
    global _warm
    if _warm:
        return
    _warm = True
    try:
        import torch
        from distributed_shampoo.distributed_shampoo import DistributedShampoo
        from distributed_shampoo.shampoo_types import AdamGraftingConfig

        for dt in (torch.float32, torch.float64, torch.bfloat16):
            ps = [torch.nn.Parameter(torch.ones(3, 2, dtype=dt)), torch.nn.Parameter(torch.ones(3, dtype=dt))]
            opt = DistributedShampoo(ps, lr=0.01, betas=(0.9, 0.99), momentum=0.5, use_nesterov=True, max_preconditioner_dim=2, precondition_frequency=1, start_preconditioning_step=1, grafting_config=AdamGraftingConfig(beta2=0.99, epsilon=1e-3), preconditioner_dtype=torch.float32 if dt == torch.bfloat16 else dt)
            for _ in range(2):
                for p in ps:
                    p.grad = torch.full_like(p, 0.5) + torch.arange(p.numel(), dtype=dt).view(p.shape)
                opt.step()
    except Exception:  # noqa  (best effort: the warm-up is not part of any oracle)
        pass


class WorldAbort(BaseException):
    """raised inside rank threads when the world is torn down (deadlock detected / peer failed)"""


def install():
    """one-time per process: threaded PG, per-thread device-mesh cache, ledger wrappers"""
    global _installed
    if _installed:
        return
    import torch
    import torch.distributed as dist
    import torch.distributed.device_mesh as dm
    import torch.distributed.distributed_c10d as c10d
    from torch.testing._internal.distributed.multi_threaded_pg import _install_threaded_pg

    torch._C._distributed_c10d._set_thread_isolation_mode(True)
    _install_threaded_pg()

    # --- per-thread cache for get_device_mesh (functools.cache is per PROCESS in real training = per rank)
    import distributed_shampoo.utils.shampoo_dist_utils as du

    lib = du.get_device_mesh
    raw = getattr(lib, "__wrapped__", lib)
    # every simulated process gets its own instance of the LIBRARY's caching policy (functools.cache / lru_cache with the
    # library's own maxsize / typed), so that a change of that policy is part of what the ledger observes
    params = lib.cache_parameters() if hasattr(lib, "cache_parameters") else None

    def _fresh_cache():
        import functools

        if params is None:
            return raw if raw is lib else functools.cache(raw)
        return functools.lru_cache(maxsize=params.get("maxsize"), typed=params.get("typed", False))(raw)

    def get_device_mesh(*args, **kwargs):
        f = _tls.__dict__.get("mesh_cache")
        if f is None or isinstance(f, dict):
            f = _tls.mesh_cache = _fresh_cache()
        return f(*args, **kwargs)  # arguments exactly as the call site wrote them: the cache key is the library's

    du.get_device_mesh = get_device_mesh
    for modname in ("shampoo_ddp_distributor", "shampoo_hsdp_distributor", "shampoo_hybrid_shard_distributor"):
        try:
            m = __import__(f"distributed_shampoo.utils.{modname}", fromlist=["x"])
            if hasattr(m, "get_device_mesh"):
                m.get_device_mesh = get_device_mesh
        except ImportError:
            pass

    # --- ledger wrappers
    orig_ag = dist.all_gather_into_tensor
    orig_ng = c10d.new_group

    def all_gather_into_tensor(output_tensor, input_tensor, group=None, async_op=False):
        w = _world
        if w is None or getattr(_tls, "rank", None) is None:
            return orig_ag(output_tensor, input_tensor, group=group, async_op=async_op)
        ranks = tuple(dist.get_process_group_ranks(group if group is not None else dist.group.WORLD))
        ev = w.enter_collective("all_gather", ranks, input_tensor.numel() * input_tensor.element_size(), str(input_tensor.dtype))
        try:
            return orig_ag(output_tensor, input_tensor, group=group, async_op=async_op)
        finally:
            w.leave_collective(ev)

    def new_group(ranks=None, *a, **k):
        w = _world
        if w is not None and getattr(_tls, "rank", None) is not None:
            w.record_creation(tuple(ranks) if ranks is not None else None)
        return orig_ng(ranks, *a, **k)

    dist.all_gather_into_tensor = all_gather_into_tensor
    c10d.all_gather_into_tensor = all_gather_into_tensor
    dist.new_group = new_group
    c10d.new_group = new_group
    dm.new_group = new_group
    _installed = True


class World:
    def __init__(self, W, interleave_seed=0, inject=True):
        self.W = W
        self.seed = interleave_seed
        self.inject = inject
        self.lock = threading.Lock()
        self.events = {r: [] for r in range(W)}  # per-rank ledger
        self.creations = {r: [] for r in range(W)}
        self.state = {r: "running" for r in range(W)}
        self.iter = {r: -1 for r in range(W)}
        self.seq = {}
        self.arrivals = {}  # (ranks, seq) -> [rank order]
        self.deadlock = None
        self.abort = threading.Event()
        self.errors = {}
        self.results = {}
        self.barrier_count = 0
        self.barrier_gen = 0
        self.barrier_cv = threading.Condition(self.lock)
        self.rng = {r: random.Random(hash((interleave_seed, r)) & 0xFFFFFFFF) for r in range(W)}

    # ---- called from rank threads
    def _nap(self, rank):
        if self.inject:
            x = self.rng[rank].random()
            if x < 0.5:
                time.sleep(0)
            elif x < 0.8:
                time.sleep(self.rng[rank].random() * 2e-4)
            elif x < 0.9:
                time.sleep(self.rng[rank].random() * 2e-3)

    def record_creation(self, ranks):
        rank = _tls.rank
        with self.lock:
            self.creations[rank].append(ranks)
        self._nap(rank)

    def enter_collective(self, op, ranks, nbytes, dtype):
        rank = _tls.rank
        self._nap(rank)
        with self.lock:
            s = self.seq.get((rank, ranks), 0)
            self.seq[(rank, ranks)] = s + 1
            ev = {"rank": rank, "op": op, "group": ranks, "seq": s, "iter": self.iter[rank], "nbytes": nbytes, "dtype": dtype, "returned": False}
            self.events[rank].append(ev)
            self.arrivals.setdefault((ranks, s), []).append(rank)
            self.state[rank] = ("coll", ranks, s)
            self._detect()
        if self.abort.is_set():
            raise WorldAbort()
        return ev

    def leave_collective(self, ev):
        with self.lock:
            ev["returned"] = True
            self.state[ev["rank"]] = "running"

    def iteration(self, i):
        """harness barrier = the gradient all-reduce of data-parallel training; sets the iteration label of this rank"""
        rank = _tls.rank
        self._nap(rank)
        with self.lock:
            self.state[rank] = ("barrier", self.barrier_gen)
            self.barrier_count += 1
            gen = self.barrier_gen
            if self.barrier_count == self.W:
                self.barrier_count = 0
                self.barrier_gen += 1
                for r in range(self.W):
                    if self.state[r] == ("barrier", gen):
                        self.state[r] = "running"
                self.barrier_cv.notify_all()
            else:
                self._detect()
                while self.barrier_gen == gen and not self.abort.is_set():
                    self.barrier_cv.wait(0.05)
            if self.abort.is_set():
                raise WorldAbort()
            self.iter[rank] = i
            self.state[rank] = "running"

    def finish(self, rank):
        with self.lock:
            self.state[rank] = "finished"
            self._detect()

    # ---- logical deadlock detector (called under self.lock at every state change)
    def _detect(self):
        if self.deadlock is not None or self.abort.is_set() or self.errors:
            return  # a rank that died for another reason is the primary event; its peers waiting for it are a consequence
        st = self.state
        if any(s == "running" for s in st.values()):
            return
        if all(s == "finished" for s in st.values()):
            return
        # no rank is running: is any waiting rank about to be released?  (an instance is complete once ALL its members have
        # arrived, even if some of them have already returned and moved on)
        for r, s in st.items():
            if isinstance(s, tuple) and s[0] == "coll":
                _, ranks, seq = s
                if len(set(self.arrivals.get((ranks, seq), ()))) == len(ranks):
                    return
            if isinstance(s, tuple) and s[0] == "barrier":
                if s[1] < self.barrier_gen:
                    return
        self.deadlock = {r: (list(s) if isinstance(s, tuple) else s) for r, s in st.items()}
        self.abort.set()
        self.barrier_cv.notify_all()
        try:
            from torch.testing._internal.distributed.multi_threaded_pg import ProcessLocalGroup

            ProcessLocalGroup.exception_handle(RuntimeError("verif: logical deadlock"))
        except Exception:  # noqa
            pass

    # ---- driver
    def run(self, rank_fn, timeout=120.0):
        global _world
        import torch.distributed as dist
        from torch.testing._internal.distributed.multi_threaded_pg import ProcessLocalGroup

        install()
        _warm_up()
        with _lock:
            if _world is not None:
                raise Inconclusive("another simulated world is still running in this process")
            _world = self
        ProcessLocalGroup.reset()
        store = dist.HashStore()

        def body(rank):
            _tls.rank = rank
            _tls.mesh_cache = None
            try:
                dist.init_process_group(backend="threaded", rank=rank, world_size=self.W, store=store)
                self.results[rank] = rank_fn(rank, self)
            except WorldAbort:
                pass
            except BaseException as e:  # noqa
                if not self.abort.is_set():
                    self.errors[rank] = (e, traceback.format_exc())
                    self.abort.set()
                    with self.lock:
                        self.barrier_cv.notify_all()
                    try:
                        ProcessLocalGroup.exception_handle(e)
                    except Exception:  # noqa
                        pass
            finally:
                self.finish(rank)
                try:
                    dist.destroy_process_group()
                except Exception:  # noqa
                    pass
                _tls.rank = None

        order = list(range(self.W))
        random.Random(self.seed).shuffle(order)
        threads = {r: threading.Thread(target=body, args=(r,), daemon=True) for r in order}
        for r in order:
            threads[r].start()
            if self.inject:
                time.sleep(random.Random(self.seed * 1009 + r).random() * 1e-3)
        t0 = time.time()
        hung = False
        for r in order:
            threads[r].join(max(0.1, timeout - (time.time() - t0)))
            if threads[r].is_alive():
                hung = True
        if hung:
            self.abort.set()
            try:
                ProcessLocalGroup.exception_handle(RuntimeError("verif: watchdog"))
            except Exception:  # noqa
                pass
            for r in order:
                threads[r].join(2.0)
        with _lock:
            _world = None
        ProcessLocalGroup.reset()
        self.hung = hung
        return self.results

    # ---- offline analysis of the recorded histories
    def interleaving_signature(self):
        return hash(tuple(sorted((k, tuple(v)) for k, v in self.arrivals.items()))) & 0xFFFFFFFF

    def excerpt(self, n=6):
        """a few recorded events per rank, for evidence samples"""
        return {"creations_rank0": [list(x) if x else x for x in self.creations[0]][:8], "events": {str(r): [[e["op"], list(e["group"]), e["seq"], e["iter"], e["nbytes"], e["dtype"]] for e in ev[:n]] for r, ev in list(self.events.items())[:3]}, "arrival_orders": [[list(k[0]), k[1], v] for k, v in list(self.arrivals.items())[:4]]}

    def n_collectives(self):
        return sum(len(v) for v in self.events.values())

    def check_ledger(self, what="run"):
        """raises Violation on: stuck rank, differing creation sequences, mismatched collective instances"""
        brief = {r: [(e["op"], list(e["group"]), e["seq"], e["iter"], e["nbytes"], e["returned"]) for e in ev][-12:] for r, ev in self.events.items()}
        if self.deadlock is not None:
            raise Violation(f"{what}: a rank is left waiting: no rank can make progress while a collective cannot complete", kind="stuck_rank", states=self.deadlock, ledger_tail=brief, creations={r: [list(x) if x else x for x in c] for r, c in self.creations.items()})
        # (iv) group creations: same rank lists in the same order on every rank
        ref = self.creations[0]
        for r in range(1, self.W):
            if self.creations[r] != ref:
                raise Violation(f"{what}: ranks perform different sequences of process-group creations (rank 0 vs rank {r})", kind="creation_mismatch", rank0=[list(x) if x else x for x in ref], other=[list(x) if x else x for x in self.creations[r]], other_rank=r)
        # per group: identical sequences of (op, size, dtype, iteration)
        per_group = {}
        for r, evs in self.events.items():
            for e in evs:
                per_group.setdefault(e["group"], {}).setdefault(r, []).append((e["op"], e["nbytes"], e["dtype"], e["iter"]))
        for g, byrank in per_group.items():
            seqs = [byrank.get(m, []) for m in g]
            for m, sq in zip(g, seqs):
                if sq != seqs[0]:
                    raise Violation(f"{what}: members of group {list(g)} perform different sequences of collectives (rank {g[0]} vs rank {m}): a collective instance is joined from different iterations or skipped", kind="collective_mismatch", group=list(g), first=seqs[0][:20], other=sq[:20], other_rank=m)
        for r, evs in self.events.items():
            for e in evs:
                if not e["returned"] and not self.errors:
                    raise Violation(f"{what}: rank {r} never returned from {e['op']} #{e['seq']} on group {list(e['group'])}", kind="stuck_rank", ledger_tail=brief)
        if getattr(self, "hung", False):
            raise Inconclusive(f"{what}: watchdog fired without a logical deadlock (a rank blocked outside the monitored collectives)")

    def raise_errors(self):
        """re-raise the first exception of a rank thread (classified by origin by the worker)"""
        if self.errors:
            r = sorted(self.errors)[0]
            e, tb = self.errors[r]
            raise e
