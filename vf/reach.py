"""E7 reach monitor: which lines of the anchored repo functions did the workload execute.

sys.monitoring LINE events, DISABLE after first hit per location -> negligible overhead."""
from __future__ import annotations

import ast
import os
import sys

from .common import REPO

TOOL = 4


def start():
    mon = sys.monitoring
    hits = set()
    try:
        mon.use_tool_id(TOOL, "vf-reach")
    except ValueError:
        return None
    prefix = REPO + os.sep

    def on_line(code, line):
        fn = code.co_filename
        if fn.startswith(prefix):
            hits.add(f"{fn[len(prefix):]}:{line}")
        return mon.DISABLE

    mon.register_callback(TOOL, mon.events.LINE, on_line)
    mon.set_events(TOOL, mon.events.LINE)
    return hits


def stop(hits):
    mon = sys.monitoring
    try:
        mon.set_events(TOOL, 0)
        mon.free_tool_id(TOOL)
    except Exception:
        pass
    return sorted(hits or [])


def anchor_lines(anchors: dict) -> dict:
    """{relative file: [qualified function names]} -> {"file::qualname": set(lines)}; functions that do not
    exist under that name are reported with value None (renamed/removed: ignored by the gate)."""
    out = {}
    for rel, names in anchors.items():
        path = os.path.join(REPO, rel)
        try:
            tree = ast.parse(open(path).read())
        except (OSError, SyntaxError):
            for n in names:
                out[f"{rel}::{n}"] = None
            continue
        found = {}

        def visit(node, prefix):
            for ch in ast.iter_child_nodes(node):
                if isinstance(ch, (ast.FunctionDef, ast.AsyncFunctionDef, ast.ClassDef)):
                    q = f"{prefix}{ch.name}"
                    if not isinstance(ch, ast.ClassDef):
                        found[q] = ch
                    visit(ch, q + ".")

        visit(tree, "")
        for n in names:
            fn = found.get(n)
            if fn is None:
                out[f"{rel}::{n}"] = None
                continue
            lines = set()
            body = fn.body
            if body and isinstance(body[0], ast.Expr) and isinstance(getattr(body[0], "value", None), ast.Constant) and isinstance(body[0].value.value, str):
                body = body[1:]
            for st in body:
                for sub in ast.walk(st):
                    if isinstance(sub, ast.stmt):
                        if isinstance(sub, ast.Expr) and isinstance(getattr(sub, "value", None), ast.Constant) and isinstance(sub.value.value, str):
                            continue
                        lines.add(sub.lineno)
            out[f"{rel}::{n}"] = lines
    return out


def report(anchors: dict, reached: set) -> tuple[dict, list]:
    """returns (per-function report, list of existing-but-never-entered functions)"""
    rep, never = {}, []
    per_file = {}
    for h in reached:
        f, _, ln = h.rpartition(":")
        per_file.setdefault(f, set()).add(int(ln))
    for key, lines in anchor_lines(anchors).items():
        rel = key.split("::")[0]
        if lines is None:
            rep[key] = "not found under this name (ignored)"
            continue
        got = lines & per_file.get(rel, set())
        rep[key] = {"reached": len(got), "total": len(lines), "unreached_lines": sorted(lines - got)[:40]}
        if lines and not got:
            never.append(key)
    return rep, never
