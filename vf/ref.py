"""E3: step-locked float64 reference model of the documented Distributed Shampoo step (DESIGN 2, trace spec).

Written from the class docstring / README / property text.  Used as a monitor around optimizer.step(): `pre()` snapshots
parameters, gradients, param_groups and state; `post()` recomputes the expected post-state FROM THE OBSERVED PRE-STATE and
compares, per block and per quantity.  Nothing here calls into the repository except the public Distributor constructor that
tells which elements of a parameter a state entry `block_k` refers to (the correctness of that tiling is C05's business)."""
from __future__ import annotations

import math

from . import matref
from .common import U, Inconclusive, OutOfDomain, Violation, beq, ratio_close, u_eff

C_STATE = {"float32": 64.0, "float64": 64.0, "bfloat16": 8.0}
C_ROOT = {"eigen": 16.0, "newton": 16.0, "ho": 256.0}


# ------------------------------------------------------------------------------------------------ hyperparameters
def resolve_groups(cfg, groups):
    """Effective hyperparameters per group: constructor defaults with beta3=-1 -> beta1 and start=-1 -> frequency resolved
    ONCE at the optimizer level, then group overrides (property C01)."""
    base = dict(cfg)
    beta3 = base["beta3"] if base["beta3"] != -1 else base["betas"][0]
    start = base["start_preconditioning_step"] if base["start_preconditioning_step"] != -1 else base["precondition_frequency"]
    base = dict(base, beta3=beta3, start_preconditioning_step=start)
    out = []
    for g in groups or [{"params": None, "overrides": {}}]:
        h = dict(base)
        for k, v in (g.get("overrides") or {}).items():
            h[k] = v
        out.append(h)
    return out


def select_root(h, order, soap):
    o = h["inv_root_override"]
    default = 2 if soap else 2 * order
    if isinstance(o, (list, tuple)):
        return o[order] if order < len(o) else default
    return default if o == 0 else o


def bc_relerr(beta, t, c=1.0):
    """relative error of a bias correction 1 - c*beta**t that is evaluated in float32 (beta rounded, t-fold power, subtraction)"""
    bc = 1.0 - c * beta**t
    return ((t + 3) * 2.0**-24 * c * beta**t + 2.0**-24) / bc


def refresh_due(t, start, freq):
    return t == start or (t > start and t % freq == 0)


# ------------------------------------------------------------------------------------------------ tensor helpers
def mode_gram(torch, G, k):
    """G_(k) G_(k)^T : contraction over all modes except k"""
    order = G.dim()
    rest = [d for d in range(order) if d != k]
    return torch.tensordot(G, G, dims=[rest, rest])


def mode_apply(torch, T, mats, selector, back=False):
    """multiply every selected mode k of T by mats[j] (contracting the mode with index 0 of the matrix, or index 1 when
    `back`), keeping the mode order"""
    it = iter(mats)
    out = T
    for k, sel in enumerate(selector):
        if not sel:
            continue
        M = next(it)
        out = torch.movedim(torch.tensordot(out, M, dims=([k], [1 if back else 0])), -1, k)
    return out


class BlockRef:
    __slots__ = ("g", "pi", "key", "param", "view", "shape", "stride", "off", "selector", "order", "root")


class Monitor:
    """Step-locked monitor for a serial DistributedShampoo optimizer."""

    def __init__(self, ds, torch, opt, cfg, groups=None, *, check_roots=True, check_basis=True, check_reference=True, counters=None, param_names=None):
        from distributed_shampoo.utils.shampoo_distributor import Distributor

        self.ds, self.torch, self.opt, self.cfg = ds, torch, opt, cfg
        self.h = resolve_groups(cfg, groups)
        self._set_group(0)
        self.check_roots, self.check_basis, self.check_reference = check_roots, check_basis, check_reference
        self.c = counters if counters is not None else {}
        for k in ("steps", "block_steps", "absent_block_steps", "refreshes", "root_checks", "root_checks_weak", "basis_checks", "basis_qr_matched", "basis_qr_nonvacuous", "basis_qr_backward", "rot_adam_checks", "warmup_block_steps", "precond_block_steps", "all_absent_group_steps", "mask_changes"):
            self.c.setdefault(k, 0)
        for k in ("max_ratio_state", "max_ratio_param", "max_ratio_root", "max_ratio_basis"):
            self.c.setdefault(k, 0.0)
        self.blocks = []
        if len(opt.param_groups) != len(self.h):
            raise Inconclusive("number of param groups differs from the generated layout")
        for gi, group in enumerate(opt.param_groups):
            try:
                dist = Distributor(group)
                views, infos = dist.local_blocked_params, dist.local_block_info_list
            except Exception as e:  # noqa
                raise Inconclusive(f"public Distributor constructor not usable for block geometry: {e}")
            for v, bi in zip(views, infos):
                b = BlockRef()
                b.g = gi
                b.param = bi.param
                b.pi = next(i for i, p in enumerate(group["params"]) if p is bi.param)
                b.key = bi.composable_block_ids[1]
                b.view = v
                b.shape, b.stride, b.off = tuple(v.shape), tuple(v.stride()), v.storage_offset() - bi.param.storage_offset()
                b.order = v.dim()
                ign = self.h[gi]["precond"]["ignored_dims"]
                b.selector = tuple(d not in ign for d in range(b.order))
                b.root = select_root(self.h[gi], b.order, self.h[gi]["precond"]["kind"] == "soap")
                self.blocks.append(b)
        self._prev_mask = None
        self.pre_snap = None

    def _set_group(self, gi):
        """preconditioner kind / solver / factor dtype are per param group (a group may override preconditioner_config,
        grafting_config, preconditioner_dtype, inv_root_override, blocking)"""
        h = self.h[gi]
        self.soap = h["precond"]["kind"] == "soap"
        self.solver = h["precond"]["solver"]
        self.fdtype_name = h["preconditioner_dtype"]

    # ---------------------------------------------------------------------------------------------- state access
    def _state(self, b):
        st = self.opt.state[b.param]
        if b.key not in st:
            raise Violation(f"optimizer.state has no entry {b.key!r} for parameter {b.pi} of group {b.g}", group=b.g, param=b.pi, block=b.key)
        return st[b.key]

    def _tensors(self, b):
        """name -> tensor for every state tensor of the block"""
        st = self._state(b)
        out = {}
        sh = st.get("shampoo")
        if sh is not None:
            for i, t in enumerate(getattr(sh, "factor_matrices", ())):
                out[f"factor_matrices.{i}"] = t
            for i, t in enumerate(getattr(sh, "inv_factor_matrices", ())):
                out[f"inv_factor_matrices.{i}"] = t
            for i, t in enumerate(getattr(sh, "factor_matrices_eigenvectors", ())):
                out[f"factor_matrices_eigenvectors.{i}"] = t
            if getattr(sh, "corrected_eigenvalues", None) is not None:
                out["corrected_eigenvalues"] = sh.corrected_eigenvalues
            for i, t in enumerate(getattr(sh, "is_factor_matrices_diagonal", ())):
                out[f"is_factor_matrices_diagonal.{i}"] = t
        for k in ("adagrad", "momentum", "filtered_grad"):
            if k in st:
                out[k] = st[k]
        return {k: (v.to_local() if hasattr(v, "to_local") else v) for k, v in out.items()}

    def _step_tensor(self, gi):
        p0 = self.opt.param_groups[gi]["params"][0]
        return self.opt.state[p0]["step"]

    def _grad_block(self, b):
        g = b.param.grad
        if g is None:
            return None
        if not g.is_contiguous() or g.shape != b.param.shape:
            raise Inconclusive("gradient layout differs from the parameter layout")
        return self.torch.as_strided(g, b.shape, b.stride, g.storage_offset() + b.off)

    # ---------------------------------------------------------------------------------------------- pre / post
    def pre(self):
        torch = self.torch
        D = torch.float64
        snap = {"groups": [], "blocks": []}
        for gi, group in enumerate(self.opt.param_groups):
            snap["groups"].append({"lr": float(group["lr"]), "weight_decay": float(group["weight_decay"]), "momentum": float(group["momentum"]), "t": int(self._step_tensor(gi).item())})
        mask = []
        for b in self.blocks:
            G = self._grad_block(b)
            ts = self._tensors(b)
            snap["blocks"].append({"W_raw": b.view.detach().clone(), "W": b.view.detach().to(D).clone(), "G": None if G is None else G.detach().to(D).clone(), "raw": {k: v.detach().clone() for k, v in ts.items()}})
            mask.append(G is not None)
        if self._prev_mask is not None and mask != self._prev_mask:
            self.c["mask_changes"] += 1
        self._prev_mask = mask
        self.pre_snap = snap
        return snap

    def _viol(self, what, b, t, **kw):
        return Violation(what, group=b.g, param=b.pi, block=b.key, block_shape=list(b.shape), step=t, **kw)

    def _cmp(self, name, obs, ref, scale, b, t, *, C, u, kappa=1.0, extra_abs=None, bucket="max_ratio_state"):
        if ref.numel() and float(ref.abs().max()) > 1e-3 * float(self.torch.finfo(obs.dtype).max):
            raise OutOfDomain(f"the documented value of {name} ({float(ref.abs().max()):.3g}) is not representable in {obs.dtype}")
        r = ratio_close(obs, ref, scale, C=C, u=u, kappa=kappa, extra_abs=extra_abs)
        self.c[bucket] = max(self.c[bucket], r if math.isfinite(r) else 1e30)
        if not r <= 1.0:
            from .common import summarize_tensor

            raise self._viol(f"{name} differs from the documented recurrence (deviation/tolerance = {r:.3g})", b, t, quantity=name, ratio=r, observed=summarize_tensor(obs), expected=summarize_tensor(ref))

    def post(self):
        torch = self.torch
        D = torch.float64
        snap = self.pre_snap
        if snap is None:
            raise Inconclusive("post() without pre()")
        self.c["steps"] += 1
        pd = self.cfg["param_dtype"]
        Cs = C_STATE[pd]
        for gi, group in enumerate(self.opt.param_groups):
            h = self.h[gi]
            gs = snap["groups"][gi]
            idx = [i for i, b in enumerate(self.blocks) if b.g == gi]
            active = any(snap["blocks"][i]["G"] is not None for i in idx)
            t_obs = int(self._step_tensor(gi).item())
            t = gs["t"] + 1 if active else gs["t"]
            if t_obs != t:
                raise Violation(f"group {gi}: step counter is {t_obs}, expected {t} ({'some' if active else 'no'} gradient present)", group=gi, step=t, kind="step_counter")
            if not active:
                self.c["all_absent_group_steps"] += 1
            beta1, beta2 = h["betas"]
            beta3 = h["beta3"]
            eps = h["epsilon"]
            start, freq = h["start_preconditioning_step"], h["precondition_frequency"]
            wd, lr, mu = gs["weight_decay"], gs["lr"], gs["momentum"]
            damp = h["dampening"]
            decoupled, bias, nesterov = h["use_decoupled_weight_decay"], h["use_bias_correction"], h["use_nesterov"]
            graft = h["grafting"]
            self._set_group(gi)
            refresh = active and refresh_due(t, start, freq)
            bc2 = 1.0 - beta2**t if (bias and beta2 < 1.0) else 1.0
            for i in idx:
                b = self.blocks[i]
                s = snap["blocks"][i]
                now = self._tensors(b)
                if set(now) != set(s["raw"]):
                    raise self._viol("set of state tensors of the block changed during step()", b, t)
                if s["G"] is None:
                    # --- absent gradient: nothing of this block may change, bit for bit
                    self.c["absent_block_steps"] += 1
                    if not beq(b.view.detach(), s["W_raw"]):
                        raise self._viol("parameter block without gradient changed", b, t, kind="absent_changed", quantity="param")
                    for k, v in now.items():
                        if not beq(v.detach(), s["raw"][k]):
                            raise self._viol(f"state tensor {k} of a block without gradient changed", b, t, kind="absent_changed", quantity=k)
                    continue
                self.c["block_steps"] += 1
                if not self.check_reference:
                    continue
                W, G = s["W"], s["G"]
                up = u_eff(getattr(torch, pd))
                fdtype = getattr(torch, self.fdtype_name)
                old = {k: v.to(D) for k, v in s["raw"].items()}
                # 1 coupled decay
                if wd != 0.0 and not decoupled:
                    sG = G.abs() + wd * W.abs()
                    G = G + wd * W
                else:
                    sG = G.abs()
                nfac = sum(b.selector)
                dims_k = [k for k, sel in enumerate(b.selector) if sel]
                # 2 factor matrices
                for j, k in enumerate(dims_k):
                    name = f"factor_matrices.{j}"
                    if name not in now:
                        raise self._viol(f"block has no {name} although dimension {k} is preconditioned", b, t)
                    gram = mode_gram(torch, G, k)
                    sgram = mode_gram(torch, sG, k)
                    if beta2 < 1.0:
                        ref = beta2 * old[name] + (1 - beta2) * gram
                        sc = beta2 * old[name].abs() + (1 - beta2) * sgram
                    else:
                        ref = old[name] + gram
                        sc = old[name].abs() + sgram
                    K = max(1, G.numel() // max(1, G.shape[k]))
                    self._cmp(name, now[name], ref, sc, b, t, C=Cs * max(1.0, math.sqrt(K) / 4), u=max(up, u_eff(fdtype)))
                if len([n for n in now if n.startswith("factor_matrices.")]) != nfac:
                    raise self._viol("number of factor matrices differs from the number of preconditioned dimensions", b, t)
                # 3 grafting second moment
                gbc = 1.0
                if graft is not None and graft["type"] != "sgd":
                    if "adagrad" not in now:
                        raise self._viol("grafting accumulator missing from the state", b, t)
                    g2 = 1.0 if graft["type"] == "adagrad" else graft["beta2"]
                    if g2 < 1.0:
                        vref = g2 * old["adagrad"] + (1 - g2) * G * G
                        vsc = g2 * old["adagrad"].abs() + (1 - g2) * sG * sG
                    else:
                        vref = old["adagrad"] + G * G
                        vsc = old["adagrad"].abs() + sG * sG
                    self._cmp("adagrad", now["adagrad"], vref, vsc, b, t, C=Cs, u=up)
                    if graft["type"] == "adam" and g2 < 1.0:
                        gbc = 1.0 - g2**t
                # 4 inverse roots / eigenbases
                if not self.soap:
                    for j in range(nfac):
                        name = f"inv_factor_matrices.{j}"
                        if refresh:
                            self._check_root(b, t, j, now[f"factor_matrices.{j}"].to(D), now[name], bc2, eps, h)
                        elif not beq(now[name], s["raw"][name]):
                            raise self._viol(f"{name} changed at step {t} which is not a refresh step (start {start}, frequency {freq})", b, t, kind="off_schedule_refresh", quantity=name)
                    if refresh and nfac:
                        self.c["refreshes"] += 1
                else:
                    for j in range(nfac):
                        name = f"factor_matrices_eigenvectors.{j}"
                        if refresh:
                            self._check_basis(b, t, j, now[f"factor_matrices.{j}"].to(D), s["raw"][name], now[name])
                        elif not beq(now[name], s["raw"][name]):
                            raise self._viol(f"{name} changed at step {t} which is not a refresh step (start {start}, frequency {freq})", b, t, kind="off_schedule_refresh", quantity=name)
                    if refresh and nfac:
                        self.c["refreshes"] += 1
                # 4' SOAP corrected eigenvalues, in the basis as of after this step's refresh
                Qs = None
                if self.soap:
                    Qs = [now[f"factor_matrices_eigenvectors.{j}"].to(D) for j in range(nfac)]
                    rotate = nfac > 0 and bool(Qs[0].any())
                    rG = mode_apply(torch, G, Qs, b.selector) if rotate else G
                    rsG = mode_apply(torch, sG, [q.abs() for q in Qs], b.selector) if rotate else sG
                    if beta2 < 1.0:
                        eref = beta2 * old["corrected_eigenvalues"] + (1 - beta2) * rG * rG
                        esc = beta2 * old["corrected_eigenvalues"].abs() + (1 - beta2) * rsG * rsG
                    else:
                        eref = old["corrected_eigenvalues"] + rG * rG
                        esc = old["corrected_eigenvalues"].abs() + rsG * rsG
                    self._cmp("corrected_eigenvalues", now["corrected_eigenvalues"], eref, esc, b, t, C=Cs * 2, u=up)
                    self.c["rot_adam_checks"] += 1
                # 5 filtered gradient
                kappa = 1.0
                if beta1 != 0.0:
                    if "filtered_grad" not in now:
                        raise self._viol("filtered gradient missing from the state although beta1 > 0", b, t)
                    m_old = old["filtered_grad"]
                    m_new = beta1 * m_old + (1 - beta1) * G
                    sm = beta1 * m_old.abs() + (1 - beta1) * sG
                    self._cmp("filtered_grad", now["filtered_grad"], m_new, sm, b, t, C=Cs, u=up)
                    if beta3 != beta1:
                        ghat = beta3 * m_old + (1 - beta3) * G
                        sgh = beta3 * m_old.abs() + (1 - beta3) * sG
                    else:
                        ghat, sgh = m_new, sm
                    if bias:
                        bc1 = 1.0 - beta3 * beta1 ** (t - 1)
                        ghat, sgh = ghat / bc1, sgh / bc1
                        kappa = max(kappa, 1.0 + bc_relerr(beta1, t - 1, beta3) / 2.0**-24)
                else:
                    if "filtered_grad" in now:
                        raise self._viol("filtered gradient state exists although beta1 = 0", b, t)
                    ghat, sgh = G, sG
                # 6 direction
                if graft is None:
                    gdir = None
                elif graft["type"] == "sgd":
                    gdir, sgd_ = ghat, sgh
                else:
                    v_now = now["adagrad"].to(D)
                    den = (v_now / gbc).sqrt() + graft["epsilon"]
                    gdir, sgd_ = ghat / den, sgh / den
                    kappa = max(kappa, 1.0 + (bc_relerr(g2, t) / 2.0**-24 if gbc != 1.0 else 0.0))
                if t < start and graft is not None:
                    P, sP = gdir, sgd_
                    self.c["warmup_block_steps"] += 1
                else:
                    self.c["precond_block_steps"] += 1
                    if not self.soap:
                        Xs = [now[f"inv_factor_matrices.{j}"].to(D) for j in range(nfac)]
                        S = mode_apply(torch, ghat, Xs, b.selector)
                        sS = mode_apply(torch, sgh, [x.abs() for x in Xs], b.selector)
                    else:
                        root = b.root
                        E = now["corrected_eigenvalues"].to(D)
                        den = (E / bc2 + eps) ** (1.0 / root)
                        kappa = max(kappa, 1.0 + (bc_relerr(beta2, t) / 2.0**-24 if bc2 != 1.0 else 0.0))
                        if rotate:
                            rg = mode_apply(torch, ghat, Qs, b.selector) / den
                            S = mode_apply(torch, rg, Qs, b.selector, back=True)
                            aQ = [q.abs() for q in Qs]
                            sS = mode_apply(torch, mode_apply(torch, sgh, aQ, b.selector) / den, aQ, b.selector, back=True)
                        else:
                            S, sS = ghat / den, sgh / den
                    fmax = float(torch.finfo(getattr(torch, pd)).max)
                    lim = 1e-2 * math.sqrt(fmax) if graft is not None else 1e-3 * fmax  # grafting takes the norm: squares must be representable
                    if float(sS.abs().max()) > lim:
                        raise OutOfDomain(f"the preconditioned direction ({float(sS.abs().max()):.3g}) or its squared norm is not representable in {pd}")
                    if graft is not None:
                        ratio = float(gdir.norm()) / (float(S.norm()) + 1e-16)
                        P, sP = S * ratio, sS * ratio
                    else:
                        P, sP = S, sS
                # regime guard (on the REFERENCE only): a documented update that moves the block by more than 1e6 times the
                # scale of its parameters and gradients is numerical blow-up by configuration, not a regime the tolerances model
                if abs(lr) * float(sP.abs().max() if sP.numel() else 0.0) > 1e6 * (float(W.abs().max() if W.numel() else 0.0) + float(s["G"].abs().max() if s["G"].numel() else 0.0) + 1e-30):
                    raise OutOfDomain("the documented update exceeds 1e6 x the parameter/gradient scale (diverging configuration)")
                # 7 decoupled decay
                if wd != 0.0 and decoupled:
                    P = P + wd * W
                    sP = sP + wd * W.abs()
                # 8 momentum
                if mu != 0.0:
                    if "momentum" not in now:
                        raise self._viol("momentum buffer missing from the state although momentum != 0", b, t)
                    M_new = mu * old["momentum"] + (1 - damp) * P
                    sM = mu * old["momentum"].abs() + (1 - damp) * sP
                    nstage = 2 + nfac
                    self._cmp("momentum", now["momentum"], M_new, sM, b, t, C=Cs * nstage, u=up, kappa=kappa)
                    if nesterov:
                        P, sP = (1 - damp) * P + mu * M_new, (1 - damp) * sP + mu * sM
                    else:
                        P, sP = M_new, sM
                elif "momentum" in now and h["momentum"] == 0.0:
                    raise self._viol("momentum buffer exists although momentum = 0", b, t)
                # 9 parameter
                W_ref = W - lr * P
                nstage = 3 + nfac
                ud = U(getattr(torch, pd))
                self._cmp("param", b.view.detach(), W_ref, abs(lr) * sP, b, t, C=Cs * nstage, u=up, kappa=kappa, extra_abs=2 * ud * (W.abs() + abs(lr) * sP), bucket="max_ratio_param")

    # ---------------------------------------------------------------------------------------------- root / basis oracles
    def _check_root(self, b, t, j, L, X, bc2, eps, h):
        """at a refresh step: stored inverse root vs float64 spectral oracle of the (observed) accumulated factor"""
        torch = self.torch
        if not self.check_roots:
            return
        mult = self.solver.get("exponent_multiplier", 1.0) if self.solver["type"] == "eigen" else 1.0
        r = b.root / mult
        if r <= 0:
            return
        n = L.shape[0]
        if not bool(torch.isfinite(X).all()):
            raise self._viol(f"stored inverse root {j} is not finite", b, t, kind="nonfinite_root")
        Xs, ev = matref.inverse_root_oracle(L / bc2, eps, r)
        ufac = U(getattr(torch, self.fdtype_name))
        ust = U(getattr(torch, self.cfg["param_dtype"]))
        tol_solver = 0.0
        if self.solver["type"] in ("newton", "ho"):
            tol_solver = n * self.solver["tolerance"]
        bound, cond = matref.root_error_bound(n, ufac, float(ev.min()), float(ev.max()), eps, r, C_m=C_ROOT[self.solver["type"]], tol_solver=tol_solver, exponent_f32=True)
        bound += 4 * ust  # stored in the parameter's precision
        # the accumulated factor is symmetric only up to the rounding of the Gram products; solvers that read the full
        # matrix (Newton, higher-order) and those that read one triangle (eigh) see inputs that differ by that much
        asym = float((L - L.T).norm()) / max(float(ev.max()) + eps, 1e-300)
        bound += 2 * asym * cond / r
        # round-off makes the smallest eigenvalue slightly negative; the eigen path shifts the spectrum, the iterative
        # solvers do not: both are accepted, they differ by shift/(eps*r) in the dominant directions
        bound += 2 * matref.inverse_root_oracle.last_shift / (eps * r)
        if bc2 != 1.0:
            bound += 4 * bc_relerr(h["betas"][1], t) / r  # the bias correction 1-beta2^t is carried in float32
        fin = torch.finfo(X.dtype)
        xmax = float(Xs.abs().max())
        if bound > 0.1 or xmax > 1e-3 * float(fin.max) or xmax < 1e3 * float(fin.tiny):
            self.c["root_checks_weak"] += 1  # beyond the accuracy bound or outside the storage dtype's range
            return
        err = matref.rel_fro(X, Xs)
        self.c["root_checks"] += 1
        self.c["max_ratio_root"] = max(self.c["max_ratio_root"], err / bound)
        if err > bound:
            raise self._viol(f"inverse root {j} refreshed at step {t} deviates from (L/bc + eps I)^(-1/{r:g}) by {err:.3g} (bound {bound:.3g}, cond {cond:.3g})", b, t, kind="root_value", quantity=f"inv_factor_matrices.{j}", error=err, bound=bound)

    def _check_basis(self, b, t, j, L, Q_old_raw, Q_new):
        torch = self.torch
        D = torch.float64
        if not self.check_basis:
            return
        n = L.shape[0]
        Q = Q_new.to(D)
        if not bool(torch.isfinite(Q).all()):
            raise self._viol(f"stored eigenbasis {j} is not finite", b, t, kind="nonfinite_basis")
        ust = U(getattr(torch, self.cfg["param_dtype"]))
        ufac = U(getattr(torch, self.fdtype_name))
        u = max(ust, ufac)
        C = 64.0
        ro = float((Q.T @ Q - torch.eye(n, dtype=D)).norm()) / (C * n * u)
        self.c["max_ratio_basis"] = max(self.c["max_ratio_basis"], ro)
        self.c["basis_checks"] += 1
        if ro > 1:
            raise self._viol(f"eigenbasis {j} refreshed at step {t} is not orthonormal: ||Q^T Q - I|| = {ro * C * n * u:.3g}", b, t, kind="basis_not_orthonormal")
        nL = float(torch.linalg.matrix_norm(L, 2)) if n > 1 else float(L.abs().max())
        Q0 = Q_old_raw.to(D)
        qr = self.solver["type"] == "qr"
        if (not qr) or not bool(Q0.any()):
            # eigendecomposition (or the QR method's fallback from a zero estimate): Q diagonalises the accumulated factor
            if nL > 0 and n > 1:
                T = Q.T @ L @ Q
                off = T - torch.diag(torch.diagonal(T))
                rd = float(off.norm()) / (C * n * u * nL)
                self.c["max_ratio_basis"] = max(self.c["max_ratio_basis"], rd)
                if rd > 1:
                    raise self._viol(f"eigenbasis {j} refreshed at step {t} does not diagonalise the accumulated factor matrix: off-diagonal {float(off.norm()):.3g}, ||L|| {nL:.3g}", b, t, kind="basis_not_diagonalising")
            return
        if n == 1:
            return
        if not bool((L - torch.diag(torch.diagonal(L))).any()) and torch.equal(Q, torch.eye(n, dtype=D)):
            # documented fast path (C12): a factor that has always been exactly diagonal yields the identity basis
            self.c["basis_diag_fast_path"] = self.c.get("basis_diag_fast_path", 0) + 1
            return
        K = self.solver["max_iterations"]
        if K == 1:
            # a single iteration is judged by the backward-stability check alone: exact whatever the conditioning
            okb, first = matref.qr_backward_check(Q, L, Q0, u)
            self.c["basis_qr_backward"] += 1
            self.c["basis_qr_matched"] += 1
            if not okb:
                raise self._viol(f"eigenbasis {j} refreshed at step {t}: Q_new^T (L Q_old) is not row-permuted upper triangular, so Q_new is not a QR factor of L @ Q_old", b, t, kind="basis_not_qr_update")
            rq = torch.einsum("ij,ik,kj->j", Q, L, Q)
            if float((rq[:-1] - rq[1:]).max()) > 64 * n * u * max(nL, 1e-300):
                raise self._viol(f"eigenbasis {j} refreshed at step {t}: columns are not ordered by ascending Rayleigh quotient", b, t, kind="basis_not_sorted")
            return
        matched, k, nv, worst = matref.match_orth_iter(Q, L, Q0, K, u, gen=torch.Generator().manual_seed(12345 + t))
        if not matched:
            raise self._viol(f"eigenbasis {j} refreshed at step {t} is not the orthogonal-iteration update of the previous basis (any k<= {K})", b, t, kind="basis_not_qr_update")
        self.c["basis_qr_matched"] += 1
        self.c["basis_qr_nonvacuous"] += nv
        verdict, J, M = matref.stop_rule_check(Q, L, Q0, K, self.solver["tolerance"], u, torch.Generator().manual_seed(777 + t), work_dtype=getattr(torch, self.fdtype_name))
        self.c["basis_stop_rule_" + verdict] = self.c.get("basis_stop_rule_" + verdict, 0) + 1
        if verdict == "violated":
            raise self._viol(f"eigenbasis {j} refreshed at step {t} matches the orthogonal iteration after {M} step(s), but the documented stopping rule (relative change <= {self.solver['tolerance']}, at most {K} iterations) stops after {J}", b, t, kind="basis_stop_rule")
