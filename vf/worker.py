"""Worker process: runs a shard of cases of one property, one JSON result line per case.

status: held | violation | inconclusive.  Exceptions are classified by origin (DESIGN 1.5)."""
from __future__ import annotations

import faulthandler
import importlib
import json
import os
import sys
import time

from .common import Inconclusive, Violation, origin_of_exception, short_tb


def run_one(mod, case):
    t0 = time.time()
    res = {"id": case["id"], "status": "held"}
    try:
        inj = os.environ.get("VERIF_SELFTEST_FLAKE", "")  # self-test of the confirm-by-rerun path: "<case id>:<marker file>"
        if inj and inj.split(":")[0] == case["id"] and not os.path.exists(inj.split(":", 1)[1]):
            open(inj.split(":", 1)[1], "w").write("x")
            raise Violation("self-test: injected one-off alarm")
        out = mod.run_case(case) or {}
        res.update(out)
        res.setdefault("status", "held")
    except Violation as v:
        res["status"] = "violation"
        res["witness"] = dict(v.witness, what=v.what)
        if getattr(v, "partial", None):
            res.update(v.partial)
    except Inconclusive as e:
        res["status"] = "inconclusive"
        res["witness"] = {"what": f"inconclusive: {e}"}
    except BaseException as e:  # noqa
        if isinstance(e, (KeyboardInterrupt, SystemExit)):
            raise
        org = origin_of_exception(e)
        if org == "repo":
            res["status"] = "violation"
            res["witness"] = {"what": f"unexpected {type(e).__name__} out of the code under test: {e}"[:600], "traceback": short_tb(e), "kind": "unexpected_exception", "exc_type": type(e).__name__}
        else:
            res["status"] = "inconclusive"
            res["witness"] = {"what": f"harness fault ({org}): {type(e).__name__}: {e}"[:600], "traceback": short_tb(e)}
    res["wall"] = round(time.time() - t0, 3)
    return res


def main(argv):
    prop, inp, out = argv
    faulthandler.enable()
    mod = importlib.import_module(f"vf.props.{prop.lower()}")
    cases = json.load(open(inp))
    reach = None
    if getattr(mod, "ANCHORS", None) and os.environ.get("VERIF_REACH", "1") != "0":
        from . import reach as _reach

        reach = _reach.start()
    with open(out, "w") as f:
        for case in cases:
            res = run_one(mod, case)
            f.write(json.dumps(res, default=str) + "\n")
            f.flush()
        if reach is not None:
            f.write(json.dumps({"id": f"__reach_{os.getpid()}", "status": "meta", "counters": {"set_reach": _reach.stop(reach)}}) + "\n")
    return 0


if __name__ == "__main__":
    sys.exit(main(sys.argv[1:]))
